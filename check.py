#!/venv/bin/python
"""Driver:  /venv/bin/python check.py <ID> [--tier quick|thorough] [--replay file]

Exit 0: property held on everything explored (KNOWN-FINDING lines may be printed).
Exit 1: at least one 'VIOLATION property=<id> replay=<path>' line was printed.
Exit 2: machinery failure (TLC/SANY crash, vacuity guard, harness bug) - never a verdict.
"""
import argparse
import importlib
import json
import os
import sys
import traceback

HERE = os.path.dirname(os.path.abspath(__file__))
sys.path.insert(0, HERE)
os.environ.setdefault("PYTHONHASHSEED", "0")

from harness import core  # noqa: E402


def main():
    ap = argparse.ArgumentParser()
    ap.add_argument("pid")
    ap.add_argument("--tier", default=os.environ.get("VERIF_TIER", "quick"), choices=["quick", "thorough"])
    ap.add_argument("--replay", default=None)
    a = ap.parse_args()
    seed = int(os.environ.get("VERIF_SEED", "0") or 0)
    pid = a.pid.upper()
    if pid == "SELFTEST":
        from harness import selftest
        return selftest.main()
    mod = importlib.import_module(f"harness.props.{pid.lower()}")
    ctx = core.Ctx(pid, a.tier, seed)
    core.start_memory_watchdog(ctx)
    try:
        core.bind_repo()
        if a.replay:
            with open(a.replay) as f:
                obj = json.load(f)
            mod.replay(ctx, obj.get("replay", obj))
        else:
            mod.run(ctx)
        rc = core.finish(ctx, level=getattr(mod, "LEVEL", "model_checking"))
    except core.MachineryError as e:
        if ctx.violations:
            print(f"NOTE property={pid}: machinery problem after violations were recorded ({str(e)[:300]}); reporting the violations", file=sys.stderr)
            try:
                rc = core.finish(ctx, level=getattr(mod, "LEVEL", "model_checking"))
            except core.MachineryError:
                rc = 1
        else:
            print(f"MACHINERY-FAILURE property={pid}: {e}", file=sys.stderr)
            rc = 2
    except Exception:
        traceback.print_exc()
        if ctx.violations:
            # the harness tripped after it had already observed violations (typically because the broken tree left
            # nothing to sample): report the violations, they are the verdict
            print(f"NOTE property={pid}: harness exception after violations were recorded; reporting the violations", file=sys.stderr)
            try:
                rc = core.finish(ctx, level=getattr(mod, "LEVEL", "model_checking"))
            except core.MachineryError:
                rc = 1
        else:
            print(f"MACHINERY-FAILURE property={pid}: unexpected harness exception", file=sys.stderr)
            rc = 2
    finally:
        ctx.cleanup()
    print(f"check {pid} tier={a.tier} seed={seed} exit={rc}")
    return rc


if __name__ == "__main__":
    sys.exit(main())
