-------------------------------- MODULE Calib --------------------------------
(***************************************************************************)
(* Derivation of a numeric / enumerated / boolean / time parameter value     *)
(* from its raw (encoded) value: context calibrators first (criteria         *)
(* evaluated with the current raw value), then the default calibrator, then  *)
(* the raw value itself; polynomial and spline (order 0 / 1, closed range,   *)
(* optional extrapolation) calibrators; enumeration lookup and boolean       *)
(* truthiness of the RAW value.  Property C08.                               *)
(*                                                                         *)
(* Arithmetic is exact on rationals <<num, den>> (den > 0, lowest terms);    *)
(* the generated domain keeps every intermediate below 2^31 and dyadic, so   *)
(* IEEE double arithmetic in the implementation is exact too.                *)
(***************************************************************************)
EXTENDS Criteria

Abs(x) == IF x < 0 THEN 0 - x ELSE x
RECURSIVE Gcd(_, _)
Gcd(a, b) == IF b = 0 THEN a ELSE Gcd(b, a % b)
Norm(r) == IF r[1] = 0 THEN <<0, 1>>
           ELSE LET g == Gcd(Abs(r[1]), r[2]) IN <<r[1] \div g, r[2] \div g>>
RAdd(a, b) == Norm(<<a[1] * b[2] + b[1] * a[2], a[2] * b[2]>>)
RSub(a, b) == Norm(<<a[1] * b[2] - b[1] * a[2], a[2] * b[2]>>)
RMul(a, b) == Norm(<<a[1] * b[1], a[2] * b[2]>>)
RDiv(a, b) == IF b[1] > 0 THEN Norm(<<a[1] * b[2], a[2] * b[1]>>) ELSE Norm(<<0 - a[1] * b[2], a[2] * (0 - b[1])>>)
RECURSIVE RPow(_, _)
RPow(a, n) == IF n = 0 THEN <<1, 1>> ELSE RMul(a, RPow(a, n - 1))
RLe(a, b) == ~RLess(b, a)
R(x) == <<x.num, x.den>>          \* JSON rational record -> pair
TF(r) == [t |-> "flt", num |-> Norm(r)[1], den |-> Norm(r)[2]]

\* ---- polynomial: sum of c_i * x^e_i
RECURSIVE PolySum(_, _, _)
PolySum(terms, x, i) == IF i > Len(terms) THEN <<0, 1>>
                        ELSE RAdd(RMul(R(terms[i].c), RPow(x, terms[i].e)), PolySum(terms, x, i + 1))
Poly(cal, x) == [k |-> "val", r |-> PolySum(cal.terms, x, 1)]

\* ---- splines over points sorted by x (strictly increasing)
X(cal, i) == R(cal.pts[i].x)
Y(cal, i) == R(cal.pts[i].y)
NP(cal) == Len(cal.pts)
Lin(xq, x0, x1, y0, y1) == RAdd(RMul(RDiv(RSub(y1, y0), RSub(x1, x0)), RSub(xq, x0)), y0)
\* index of the segment [x_i, x_i+1) that contains xq, for x_1 <= xq < x_n
Seg(cal, xq) == CHOOSE i \in 1 .. NP(cal) - 1 : RLe(X(cal, i), xq) /\ RLess(xq, X(cal, i + 1))
Spline(cal, xq) ==
    LET n == NP(cal) IN
    IF REq(xq, X(cal, n)) THEN [k |-> "val", r |-> Y(cal, n)]                       \* closed range: upper end point
    ELSE IF RLe(X(cal, 1), xq) /\ RLess(xq, X(cal, n))
         THEN LET i == Seg(cal, xq) IN
              [k |-> "val", r |-> IF cal.order = 0 THEN Y(cal, i)
                                  ELSE Lin(xq, X(cal, i), X(cal, i + 1), Y(cal, i), Y(cal, i + 1))]
    ELSE IF ~cal.extrap THEN [k |-> "err", kind |-> "calib"]
    ELSE IF RLess(X(cal, n), xq)
         THEN [k |-> "val", r |-> IF cal.order = 0 THEN Y(cal, n)
                                  ELSE Lin(xq, X(cal, n - 1), X(cal, n), Y(cal, n - 1), Y(cal, n))]
         ELSE [k |-> "val", r |-> IF cal.order = 0 THEN Y(cal, 1)
                                  ELSE Lin(xq, X(cal, 1), X(cal, 2), Y(cal, 1), Y(cal, 2))]

Apply(cal, x) == IF cal.k = "poly" THEN Poly(cal, x) ELSE Spline(cal, x)

\* ---- selection: first context calibrator whose criteria all hold, else default, else none
\* returns [k |-> "cal", cal] | [k |-> "none"] | [k |-> "undef"]
Select(calset, env, rawv) ==
    LET n == Len(calset.context)
        ev(i) == EvalAll(calset.context[i].crit, env, rawv)
        hits == {i \in 1 .. n : ev(i) # "F"}
    IN IF hits # {}
       THEN LET i == CHOOSE j \in hits : \A h \in hits : j <= h
            IN IF ev(i) = "T" THEN [k |-> "cal", cal |-> calset.context[i].cal] ELSE [k |-> "undef"]
       ELSE IF calset.default.k # "none" THEN [k |-> "cal", cal |-> calset.default] ELSE [k |-> "none"]

\* value of a numeric encoding: calibrated (always a float) or the raw value in its own class
NumericValue(calset, env, rawv) ==
    LET s == Select(calset, env, rawv) IN
    IF s.k = "undef" THEN [k |-> "undef"]
    ELSE IF s.k = "none" THEN [k |-> "val", v |-> rawv, cls |-> IF rawv.t = "int" THEN "Int" ELSE "Float"]
    ELSE LET a == Apply(s.cal, RatOf(rawv)) IN
         IF a.k = "err" THEN a ELSE [k |-> "val", v |-> TF(a.r), cls |-> "Float"]

\* ---- parameter types.  The raw_value attribute is the encoded value in every case.
Derive(pt, env, rawv) ==
    CASE pt.kind \in {"int", "float", "abstime", "reltime"} -> NumericValue(pt.cal, env, rawv)
      [] pt.kind = "enum" ->
            LET S == {pt.enum[i] : i \in 1 .. Len(pt.enum)}
                m == {e \in S : IsNum(e.raw) /\ REq(RatOf(e.raw), RatOf(rawv))}
            IN IF Select(pt.cal, env, rawv).k = "undef" THEN [k |-> "undef"]
               ELSE IF NumericValue(pt.cal, env, rawv).k = "err" THEN [k |-> "undef"]  \* a failing calibrator on an enum: unspecified
               ELSE IF m = {} THEN [k |-> "err", kind |-> "enum"]
               ELSE [k |-> "val", v |-> [t |-> "str", s |-> (CHOOSE e \in m : TRUE).label], cls |-> "Str"]
      [] pt.kind = "bool" ->
            IF Select(pt.cal, env, rawv).k = "undef" \/ NumericValue(pt.cal, env, rawv).k = "err" THEN [k |-> "undef"]
            ELSE [k |-> "val", v |-> [t |-> "bool", n |-> IF RatOf(rawv)[1] = 0 THEN 0 ELSE 1], cls |-> "Bool"]
=============================================================================
