SPECIFICATION Spec
CONSTANTS
  MaxN = 13
INVARIANT EachOnce
INVARIANT Elided
INVARIANT ParseTotal
PROPERTY Terminates
CHECK_DEADLOCK FALSE
