---------------------------- MODULE Trace_Numeric ----------------------------
(* Validate logged field decodes of the real IntegerDataEncoding / FloatDataEncoding against Numeric.         *)
(* Lines: {k: "int"|"ieee"|"mil", b: field bits, e: encoding, o: "msb"|"lsb", r: typed value, raw: typed raw,  *)
(*         c: class name of the result ("Int"/"Float"), adv: cursor advance}                                  *)
EXTENDS Numeric, Json, IOUtils
VARIABLES l
TLog == ndJsonDeserialize(IOEnv.TRACE_FILE)
Same(a, b) == IF a.t # b.t THEN FALSE
              ELSE IF a.t = "int" THEN a.neg = b.neg /\ a.mag = b.mag
              ELSE a.cls = b.cls /\ (a.cls = "nan" \/ a.neg = b.neg) /\ (a.cls # "fin" \/ (a.sig = b.sig /\ a.exp = b.exp))
Check(x) == LET want == NumDecode(x.k, x.b, x.e, x.o)
            IN IF x.adv # Len(x.b) THEN "cursor"
               ELSE IF x.c # ResultClass(x.k) THEN "class"
               ELSE IF ~Same(x.r, want) THEN "value"
               ELSE IF ~Same(x.raw, want) THEN "raw"
               ELSE "ok"
Init == l = 1
Next == /\ l <= Len(TLog) + 1
        /\ IF l <= Len(TLog)
           THEN LET c == Check(TLog[l]) IN (c # "ok") => PrintT(<<"REJECT", l, c>>)
           ELSE PrintT(<<"DONE", Len(TLog)>>)
        /\ l' = l + 1
=============================================================================
