--------------------------- MODULE Trace_Segments ---------------------------
(* Validate executions of packet_generator(combine_segmented_packets=True) against Segments.             *)
(* One trace per ndjson line: {tid, pk:[[apid,flag,seq]..], outs:[[ids]..], gaps, nostarts, other}               *)
(* pk is the raw packet history fed to the generator (ids are positions), outs the outputs the real       *)
(* generator yielded, identified by which raw packets' payload bytes they contain, in order.              *)
(* The model is stepped over pk with Segments!Step; its outputs and warning counts must equal the log.    *)
EXTENDS Segments, Json, IOUtils

VARIABLES tid, l, st, mouts, ngap, nnostart
tvars == <<vars, tid, l, st, mouts, ngap, nnostart>>

TLog == ndJsonDeserialize(IOEnv.TRACE_FILE)
T == TLog[tid]
FlagName(i) == CASE i = 0 -> "C" [] i = 1 -> "F" [] i = 2 -> "L" [] i = 3 -> "U"

TraceInit == \E t \in 1 .. Len(TLog) :
               /\ tid = t /\ l = 1 /\ st = "run" /\ mouts = <<>> /\ ngap = 0 /\ nnostart = 0 /\ Init

Consume == /\ st = "run" /\ l <= Len(T.pk)
           /\ LET e == T.pk[l]
                  p == [id |-> l, apid |-> e[1], flag |-> FlagName(e[2]), seq |-> e[3]]
              IN Step(p)
           /\ n' = n + 1 /\ l' = l + 1
           /\ mouts' = IF last' # <<>> THEN Append(mouts, [i \in 1 .. Len(last') |-> last'[i].id]) ELSE mouts
           /\ ngap' = ngap + (IF warn' = "gap" THEN 1 ELSE 0)
           /\ nnostart' = nnostart + (IF warn' = "nostart" THEN 1 ELSE 0)
           /\ UNCHANGED <<tid, st>>

Verdict == /\ st = "run" /\ l = Len(T.pk) + 1
           /\ LET okOuts == mouts = T.outs
                  \* T.other: drop warnings whose wording the harness does not recognise (the property does not fix the wording);
                  \* recognised ones may not exceed their kind, all together must add up (equality per kind when other = 0)
                  okWarn == T.gaps <= ngap /\ T.nostarts <= nnostart /\ T.gaps + T.nostarts + T.other = ngap + nnostart
                  inv == OpenUnused /\ OpenShape
              IN /\ st' = IF okOuts /\ okWarn /\ inv THEN "accepted" ELSE "rejected"
                 /\ PrintT(<<IF okOuts /\ okWarn /\ inv THEN "ACCEPT" ELSE "REJECT", tid,
                             IF ~okOuts THEN "outputs" ELSE IF ~okWarn THEN "warnings" ELSE IF ~inv THEN "invariant" ELSE "ok",
                             ToJson([model |-> mouts, mgaps |-> ngap, mnostarts |-> nnostart])>>)
           /\ UNCHANGED <<vars, tid, l, mouts, ngap, nnostart>>

TraceNext == Consume \/ Verdict
\* every state of every trace satisfies the state invariants of the module
TraceInv == OpenUnused /\ OpenShape /\ LastWellFormed
=============================================================================
