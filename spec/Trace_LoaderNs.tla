--------------------------- MODULE Trace_LoaderNs ---------------------------
(* Validate logged load histories against LoaderNs: one history per line                                           *)
(*   {ev: [{req: {doc, style, prefix, xsi, fault}, outcome: "loaded"|"failed", gp, gm: [[prefix, uri]...], same: bool}]} *)
(* `same` = the loaded definition's projection equals the document's canonical projection (checked by the harness).  *)
EXTENDS LoaderNs, Json, IOUtils
VARIABLES tid, l, st
tvars == <<vars, tid, l, st>>
TLog == ndJsonDeserialize(IOEnv.TRACE_FILE)
Ev == TLog[tid].ev
AsSet(s) == {<<s[i][1], s[i][2]>> : i \in 1 .. Len(s)}
TInit == Init /\ (\E t \in 1 .. Len(TLog) : tid = t) /\ l = 1 /\ st = "run"
Begin == st = "run" /\ l <= Len(Ev) /\ Start(Ev[l].req) /\ UNCHANGED <<tid, l, st>>
Inner == st = "run" /\ (ParseOk \/ SetPrefix \/ SetNsmap) /\ UNCHANGED <<tid, l, st>>
End == /\ st = "run" /\ (ParseFail \/ LookupsFail \/ LookupsOk)
       /\ LET e == Ev[l]
              ok == /\ last'.k = e.outcome /\ gp' = e.gp /\ gm' = AsSet(e.gm)
                    /\ (e.outcome = "loaded" => e.same)
          IN IF ok THEN l' = l + 1 /\ UNCHANGED st
             ELSE /\ st' = "rejected" /\ l' = l
                  /\ PrintT(<<"REJECT", tid, l, ToJson([model |-> last', gp |-> gp', gm |-> gm'])>>)
       /\ UNCHANGED tid
Accept == st = "run" /\ phase = "idle" /\ l = Len(Ev) + 1 /\ st' = "accepted" /\ PrintT(<<"ACCEPT", tid>>) /\ UNCHANGED <<vars, tid, l>>
TNext == Begin \/ Inner \/ End \/ Accept
TInv == LookupSeesOwnDoc
=============================================================================
