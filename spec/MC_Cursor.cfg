SPECIFICATION MCSpec
CONSTANTS
  Alphabet = {0, 255, 165, 60, 129}
  NBytes = 3
INVARIANT ResultIsSlice
INVARIANT CursorAdvances
PROPERTY BufferUnchanged
CHECK_DEADLOCK FALSE
