--------------------------- MODULE RoundTripAttrs ---------------------------
(* Part 2 of the write/load model (property C09): attributes with defaults. *)
(* Part 2: attributes with defaults.  womit: values at which the writer omits the attribute; rdefault: what the reader
   assumes when the attribute is absent. *)
Absent == "<absent>"
AttrTable == {
  [a |-> "IntegerDataEncoding.encoding", vals |-> {"unsigned", "signed", "twosComplement"}, womit |-> {}, rdefault |-> "unsigned"],
  [a |-> "NumericDataEncoding.byteOrder", vals |-> {"msb", "lsb"}, womit |-> {}, rdefault |-> "msb"],
  [a |-> "FloatDataEncoding.encoding", vals |-> {"IEEE754", "MILSTD_1750A"}, womit |-> {}, rdefault |-> "IEEE754"],
  [a |-> "StringDataEncoding.encoding", vals |-> {"UTF-8", "US-ASCII", "UTF-16LE"}, womit |-> {}, rdefault |-> "UTF-8"],
  [a |-> "ParameterInstanceRef.useCalibratedValue", vals |-> {"true", "false"}, womit |-> {}, rdefault |-> "true"],
  [a |-> "Comparison.useCalibratedValue", vals |-> {"true", "false"}, womit |-> {}, rdefault |-> "true"],
  [a |-> "Condition.left.useCalibratedValue", vals |-> {"true", "false"}, womit |-> {}, rdefault |-> "true"],
  [a |-> "Condition.right.useCalibratedValue", vals |-> {"true", "false"}, womit |-> {}, rdefault |-> "true"],
  [a |-> "Condition.operator", vals |-> {"==", "!=", "<", ">=", "leq", "gt"}, womit |-> {}, rdefault |-> "=="],
  [a |-> "BooleanExpression.shape", vals |-> {"condition", "and", "or", "and-of-or", "or-of-and", "and-of-two-ors", "or-of-two-ands"}, womit |-> {}, rdefault |-> "condition"],
  [a |-> "Comparison.comparisonOperator", vals |-> {"==", "!=", "<", ">", "<=", ">="}, womit |-> {}, rdefault |-> "=="],
  [a |-> "SplineCalibrator.order", vals |-> {"0", "1"}, womit |-> {}, rdefault |-> "0"],
  [a |-> "SplineCalibrator.extrapolate", vals |-> {"true", "false"}, womit |-> {}, rdefault |-> "false"],
  [a |-> "SequenceContainer.abstract", vals |-> {"true", "false"}, womit |-> {}, rdefault |-> "false"],
  [a |-> "shortDescription", vals |-> {"", "text"}, womit |-> {""}, rdefault |-> ""],
  [a |-> "LongDescription", vals |-> {"", "text"}, womit |-> {""}, rdefault |-> ""],
  [a |-> "Unit", vals |-> {"", "m/s"}, womit |-> {""}, rdefault |-> ""],
  [a |-> "LinearAdjustment", vals |-> {"none", "8x+0", "8x-8", "0x+16", "1x+3", "1x+0"}, womit |-> {"none"}, rdefault |-> "none"],
  [a |-> "DefaultCalibrator", vals |-> {"none", "poly", "spline", "poly-many-digits", "spline-many-digits"}, womit |-> {"none"}, rdefault |-> "none"],
  [a |-> "ContextCalibratorList", vals |-> {"none", "one", "two"}, womit |-> {"none"}, rdefault |-> "none"],
  [a |-> "TimeEncoding.scale/offset", vals |-> {"none", "offset+scale", "scale", "quadratic", "offset+scale+quadratic", "offset+quadratic", "constant"},
   womit |-> {"none"}, rdefault |-> "none"],
  [a |-> "ReferenceTime.Epoch", vals |-> {"", "TAI"}, womit |-> {""}, rdefault |-> ""],
  [a |-> "LeadingSize", vals |-> {"none", "8", "16"}, womit |-> {"none"}, rdefault |-> "none"],
  [a |-> "TerminationChar", vals |-> {"none", "00", "5800"}, womit |-> {"none"}, rdefault |-> "none"],
  \* structural alternatives (one element instead of another; nothing is omitted or defaulted): every form must survive
  [a |-> "BinaryLength", vals |-> {"dynamic", "fixed", "lookup", "lookup-lists"}, womit |-> {}, rdefault |-> "dynamic"],
  [a |-> "StringLength", vals |-> {"dynamic", "lookup", "lookup-lists"}, womit |-> {}, rdefault |-> "dynamic"],
  [a |-> "ContextMatch", vals |-> {"comparisons", "boolean-expression"}, womit |-> {}, rdefault |-> "comparisons"],
  [a |-> "ReferenceTime.OffsetFrom", vals |-> {"", "N"}, womit |-> {""}, rdefault |-> ""]}
WriteAttr(r, v) == IF v \in r.womit THEN Absent ELSE v
ReadAttr(r, x) == IF x = Absent THEN r.rdefault ELSE x
AttrPreserved == \A r \in AttrTable : \A v \in r.vals : ReadAttr(r, WriteAttr(r, v)) = v
ASSUME AttrPreserved
=============================================================================
