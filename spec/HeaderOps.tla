----------------------------- MODULE HeaderOps -----------------------------
(* Pure operators of the CCSDS primary header layout (shared by Header, Trace_Header and the decoders). *)
EXTENDS Integers, Sequences, TLC

FieldNames == <<"ver", "typ", "shf", "apid", "flags", "seq">>
Max == [ver |-> 7, typ |-> 1, shf |-> 1, apid |-> 2047, flags |-> 3, seq |-> 16383]
MaxData == 65536

Valid(f, n) == /\ \A k \in DOMAIN Max : f[k] >= 0 /\ f[k] <= Max[k]
               /\ n >= 1 /\ n <= MaxData

W1(f) == f.ver * 8192 + f.typ * 4096 + f.shf * 2048 + f.apid
W2(f) == f.flags * 16384 + f.seq
\* the six header bytes of a packet with fields f and n data bytes
Pack(f, n) == <<W1(f) \div 256, W1(f) % 256, W2(f) \div 256, W2(f) % 256, (n - 1) \div 256, (n - 1) % 256>>

\* the accessors applied to six header bytes h
Unpack(h) == LET w1 == h[1] * 256 + h[2]
                 w2 == h[3] * 256 + h[4]
             IN [ver |-> w1 \div 8192, typ |-> (w1 \div 4096) % 2, shf |-> (w1 \div 2048) % 2, apid |-> w1 % 2048,
                 flags |-> w2 \div 16384, seq |-> w2 % 16384]
LenField(h) == h[5] * 256 + h[6]

=============================================================================
