SPECIFICATION Spec
CONSTANTS
  Apids = {100, 200}
  Seqs = {16382, 16383, 0, 1}
  AsIs = FALSE
  MaxLen = 5
INVARIANT TypeOK
INVARIANT OpenUnused
INVARIANT OpenShape
INVARIANT LastWellFormed
PROPERTY NoReuseStep
PROPERTY PerApidIndependent
PROPERTY OnlyWhenComplete
CHECK_DEADLOCK FALSE
