----------------------------- MODULE Trace_Calib -----------------------------
(* Evaluate Calib!Derive on enumerated / logged cases and compare with the real ParameterType.parse_value.      *)
(* Line: {pt, env:[{name,v,r}], raw: typed raw value, obs: {k: "val"|"err-calib"|"err-enum"|"X", v, raw, cls}}   *)
EXTENDS Calib, Json, IOUtils
VARIABLES l
TLog == ndJsonDeserialize(IOEnv.TRACE_FILE)
EnvOf(list) == LET S == {list[i] : i \in 1 .. Len(list)}
               IN [nm \in {e.name : e \in S} |-> LET e == CHOOSE x \in S : x.name = nm IN [v |-> e.v, r |-> e.r]]
SameVal(a, b) == IF IsNum(a) /\ IsNum(b) THEN a.t = b.t /\ REq(RatOf(a), RatOf(b))
                 ELSE a = b
Check(x) == LET e == Derive(x.pt, EnvOf(x.env), x.raw) IN
    IF e.k = "undef" THEN "ok"
    ELSE IF e.k = "err" THEN (IF x.obs.k = "err-" \o e.kind THEN "ok" ELSE "error-expected")
    ELSE IF x.obs.k # "val" THEN "value-expected"
    ELSE IF ~SameVal(x.obs.v, e.v) THEN "value"
    ELSE IF x.obs.cls # e.cls THEN "class"
    ELSE IF ~SameVal(x.obs.raw, x.raw) THEN "raw"
    ELSE "ok"
Show(x) == LET e == Derive(x.pt, EnvOf(x.env), x.raw) IN IF e.k = "val" THEN ToJson(e) ELSE ToJson(e)
Init == l = 1
Next == /\ l <= Len(TLog) + 1
        /\ IF l <= Len(TLog)
           THEN LET c == Check(TLog[l]) IN (c # "ok") => PrintT(<<"REJECT", l, c, Show(TLog[l])>>)
           ELSE PrintT(<<"DONE", Len(TLog)>>)
        /\ l' = l + 1
=============================================================================
