INIT TInit
NEXT TNext
INVARIANT NoDuplicates
PROPERTY StableAfterOne
PROPERTY WriteIsPure
CHECK_DEADLOCK FALSE
