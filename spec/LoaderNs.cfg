SPECIFICATION Spec
CONSTANTS
  Docs = {1, 2}
  MaxLoads = 3
INVARIANT LookupSeesOwnDoc
PROPERTY HistoryIndependent
PROPERTY FaultsFail
CHECK_DEADLOCK FALSE
