--------------------------------- MODULE Cli ---------------------------------
(***************************************************************************)
(* The two listing commands of the CLI (property C19).                       *)
(*   describe-packets: rows of the header table for a file of n packets      *)
(*   parse --packet i: the packet shown, or the out-of-range message         *)
(* A run is one command invocation: Start picks the command and its          *)
(* arguments, Frame frames the file (the Framer module shows this terminates *)
(* on every file), Render produces the output.  Rows are packet indices      *)
(* (0-based); -1 stands for the ellipsis row.                                *)
(***************************************************************************)
EXTENDS Integers, Sequences, TLC, Json

CONSTANTS MaxN
MAXROWS == 10
HEAD == 5
VARIABLES cmd, n, idx, pc, out
vars == <<cmd, n, idx, pc, out>>

Rows(k) == IF k = 0 THEN <<>>
           ELSE IF k <= MAXROWS THEN [j \in 1 .. k |-> j - 1]
           ELSE [j \in 1 .. 2 * HEAD + 1 |-> IF j <= HEAD THEN j - 1 ELSE IF j = HEAD + 1 THEN 0 - 1 ELSE k - 2 * HEAD - 1 + j - 1]
Shown(k, i) == IF i >= 0 /\ i < k THEN [k |-> "packet", i |-> i] ELSE [k |-> "out-of-range", i |-> i]

Init == \E c \in {"describe", "parse"} : \E k \in 0 .. MaxN : \E i \in (0 - 2) .. (MaxN + 2) :
           /\ cmd = c /\ n = k /\ idx = (IF c = "parse" THEN i ELSE 0) /\ pc = "start" /\ out = <<>>
           /\ (c = "parse" => i <= k + 1)
Frame == pc = "start" /\ pc' = "framed" /\ UNCHANGED <<cmd, n, idx, out>>
RenderListing == /\ pc = "framed" /\ cmd = "describe"
                 /\ out' = [k |-> (IF n = 0 THEN "no-packets" ELSE "table"), rows |-> Rows(n)]
                 /\ pc' = "done" /\ UNCHANGED <<cmd, n, idx>>
RenderParse ==   /\ pc = "framed" /\ cmd = "parse"
                 /\ out' = Shown(n, idx)
                 /\ pc' = "done" /\ UNCHANGED <<cmd, n, idx>>
Next == Frame \/ RenderListing \/ RenderParse
Spec == Init /\ [][Next]_vars /\ WF_vars(Next)

\* C19: every packet exactly once and in order when n <= 10; otherwise first five, one ellipsis, last five
EachOnce == (pc = "done" /\ cmd = "describe" /\ n <= MAXROWS) =>
               /\ Len(out.rows) = n /\ \A j \in 1 .. n : out.rows[j] = j - 1
Elided == (pc = "done" /\ cmd = "describe" /\ n > MAXROWS) =>
               /\ Len(out.rows) = 2 * HEAD + 1
               /\ \A j \in 1 .. HEAD : out.rows[j] = j - 1 /\ out.rows[HEAD + 1 + j] = n - HEAD + j - 1
               /\ out.rows[HEAD + 1] = 0 - 1
ParseTotal == (pc = "done" /\ cmd = "parse") => (out.k = "packet" <=> (idx >= 0 /\ idx < n))
Terminates == <>(pc = "done")
Export == pc = "done" => PrintT(<<"R", ToJson([cmd |-> cmd, n |-> n, idx |-> idx, out |-> out])>>)
=============================================================================
