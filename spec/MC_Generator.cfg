SPECIFICATION GSpec
INVARIANT OutEqualsPerPacket
INVARIANT DoneMeansAll
PROPERTY NoCrossTalk
CHECK_DEADLOCK FALSE
