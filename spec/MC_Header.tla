------------------------------ MODULE MC_Header ------------------------------
EXTENDS Header, Json
CONSTANTS Mode     \* "words": all 2^16 values of each header word; "pairs": boundary lattice incl. invalid values

Base == [ver |-> 5, typ |-> 1, shf |-> 0, apid |-> 1365, flags |-> 2, seq |-> 10922]
FromW1(w) == [ver |-> w \div 8192, typ |-> (w \div 4096) % 2, shf |-> (w \div 2048) % 2, apid |-> w % 2048]
WordCase(which, w) == CASE which = 1 -> <<[Base EXCEPT !.ver = FromW1(w).ver, !.typ = FromW1(w).typ, !.shf = FromW1(w).shf, !.apid = FromW1(w).apid], 300>>
                        [] which = 2 -> <<[Base EXCEPT !.flags = w \div 16384, !.seq = w % 16384], 300>>
                        [] which = 3 -> <<Base, w + 1>>
\* in-range boundaries, just outside, and far outside with low bits that look valid (65536 = 2^16, 65541 = 2^16 + 5)
Vals == [ver |-> {-1, 0, 7, 8, 65536}, typ |-> {-1, 0, 1, 2}, shf |-> {-1, 0, 1, 65537}, apid |-> {-1, 0, 2047, 2048, 65541},
         flags |-> {-1, 0, 3, 65536}, seq |-> {-1, 0, 16383, 16384, 65536}]
Lens == {0, 1, 2, 255, 256, 257, 65535, 65536, 65537}
MCInit == IF Mode = "words"
          THEN \E which \in 1 .. 3 : \E w \in 0 .. 65535 : InitWith(WordCase(which, w)[1], WordCase(which, w)[2])
          ELSE \E v \in Vals.ver : \E t \in Vals.typ : \E s \in Vals.shf : \E a \in Vals.apid : \E fl \in Vals.flags :
               \E sq \in Vals.seq : \E n \in Lens :
                  InitWith([ver |-> v, typ |-> t, shf |-> s, apid |-> a, flags |-> fl, seq |-> sq], n)
MCSpec == MCInit /\ [][Next]_vars
Export == pc \in {"read", "rejected"} =>
             PrintT(<<"R", ToJson([f |-> fields, n |-> dlen, ok |-> pc = "read", h |-> hdr])>>)
=============================================================================
