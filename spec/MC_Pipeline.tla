----------------------------- MODULE MC_Pipeline -----------------------------
EXTENDS Pipeline
CONSTANTS MaxPackets, Skips, RSizes, WithCuts
Kinds == {"bytes", "file", "sock"}
\* packets: prefix bytes 7, header <<0, apid, 0, 0, 0, dlen-1>>, data bytes 9
Pkt(apid, dlen, sk) == [i \in 1 .. sk |-> 7] \o <<0, apid, 0, 0, 0, dlen - 1>> \o [i \in 1 .. dlen |-> 9]
Shapes == {<<1, 2>>, <<1, 3>>, <<1, 1>>, <<2, 1>>, <<2, 3>>, <<5, 2>>}
RECURSIVE Cat(_, _)
Cat(sh, sk) == IF sh = <<>> THEN <<>> ELSE Pkt(Head(sh)[1], Head(sh)[2], sk) \o Cat(Tail(sh), sk)
ShapeSeqs == UNION {[1 .. n -> Shapes] : n \in 0 .. MaxPackets}
Cuts(s) == IF WithCuts THEN {SubSeq(s, 1, k) : k \in 0 .. Len(s)} ELSE {s}
AsFn(s) == [i \in 0 .. Len(s) - 1 |-> s[i + 1]]
MCInit == \E sk \in Skips : \E sh \in ShapeSeqs : \E s \in Cuts(Cat(sh, sk)) : \E k \in Kinds : \E r \in RSizes :
             PInit(AsFn(s), Len(s), k, r, sk)
MCSpec == MCInit /\ [][PNext]_pvars /\ WF_pvars(PNext)
MCInitNext == MCInit /\ [][PNext]_pvars
=============================================================================
