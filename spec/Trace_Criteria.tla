--------------------------- MODULE Trace_Criteria ---------------------------
(* Evaluate Criteria on enumerated / logged cases and compare with what the real classes returned.            *)
(* Line: {kind: "cmp"|"cond"|"bool"|"list"|"lookup", env: [{name, v, r}], cur, expr, obs}                      *)
(*   obs: "T" | "F" | "X" (exception) | "N" (lookup: no entry) | "V<n>" is given as obsn with obs = "V"        *)
(* Every line also checks the specification against itself: De Morgan duality of boolean expressions,          *)
(* a list being the conjunction of its members.  A REJECT line carries the expected value.                     *)
EXTENDS Criteria, Json, IOUtils
VARIABLES l
TLog == ndJsonDeserialize(IOEnv.TRACE_FILE)

EnvOf(list) == LET S == {list[i] : i \in 1 .. Len(list)}
               IN [nm \in {e.name : e \in S} |-> LET e == CHOOSE x \in S : x.name = nm IN [v |-> e.v, r |-> e.r]]

Expected(x) == LET env == EnvOf(x.env) IN
    CASE x.kind = "cmp" -> EvalCmp(x.expr, env, x.cur)
      [] x.kind = "cond" -> EvalCond(x.expr, env)
      [] x.kind = "bool" -> EvalB(x.expr, env)
      [] x.kind = "list" -> EvalList(x.expr.items, env, x.cur)
      [] x.kind = "lookup" -> LET r == Lookup(x.expr.entries, env, x.cur)
                              IN IF r.k = "none" THEN "N" ELSE IF r.k = "undef" THEN "U" ELSE "V"
ExpectedN(x) == IF x.kind = "lookup"
                THEN LET r == Lookup(x.expr.entries, EnvOf(x.env), x.cur) IN IF r.k = "val" THEN r.n ELSE 0
                ELSE 0
SelfCheck(x) == LET env == EnvOf(x.env) IN
    CASE x.kind = "bool" -> EvalB(Dual(x.expr), env) = KNot(EvalB(x.expr, env))
      [] x.kind = "list" -> (Len(x.expr.items) = 1 => EvalList(x.expr.items, env, x.cur) = EvalCmp(x.expr.items[1], env, x.cur))
      [] OTHER -> TRUE
\* does any leaf of the case evaluate to "U"?  (then an error from the implementation is acceptable whatever
\* the order in which it evaluates the leaves)
RECURSIVE AnyUB(_, _)
AnyUB(e, env) == IF e.k = "cond" THEN EvalCond(e, env) = "U"
                 ELSE \/ \E i \in 1 .. Len(e.conds) : EvalCond(e.conds[i], env) = "U"
                      \/ \E i \in 1 .. Len(e.groups) : AnyUB(e.groups[i], env)
AnyU(x) == LET env == EnvOf(x.env) IN
    CASE x.kind = "cmp" -> EvalCmp(x.expr, env, x.cur) = "U"
      [] x.kind = "cond" -> EvalCond(x.expr, env) = "U"
      [] x.kind = "bool" -> AnyUB(x.expr, env)
      [] x.kind = "list" -> \E i \in 1 .. Len(x.expr.items) : EvalCmp(x.expr.items[i], env, x.cur) = "U"
      [] x.kind = "lookup" -> \E j \in 1 .. Len(x.expr.entries) : \E i \in 1 .. Len(x.expr.entries[j].items) :
                                 EvalCmp(x.expr.entries[j].items[i], env, x.cur) = "U"
\* an undefined relation may be answered by an error or by any truth value; a defined one must be answered exactly
Check(x) == LET e == Expected(x) IN
    IF ~SelfCheck(x) THEN "selfcheck"
    ELSE IF e = "U" THEN "ok"
    ELSE IF x.obs = "X" /\ AnyU(x) THEN "ok"
    ELSE IF x.obs # e THEN "value"
    ELSE IF e = "V" /\ x.obsn # ExpectedN(x) THEN "lookupvalue"
    ELSE "ok"
Init == l = 1
Next == /\ l <= Len(TLog) + 1
        /\ IF l <= Len(TLog)
           THEN LET c == Check(TLog[l]) IN (c # "ok") => PrintT(<<"REJECT", l, c, Expected(TLog[l]), ExpectedN(TLog[l])>>)
           ELSE PrintT(<<"DONE", Len(TLog)>>)
        /\ l' = l + 1
=============================================================================
