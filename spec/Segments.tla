------------------------------ MODULE Segments ------------------------------
(***************************************************************************)
(* Per-APID reassembly of segmented packets in                              *)
(* XtcePacketDefinition.packet_generator(combine_segmented_packets=True).   *)
(*                                                                         *)
(* One action per branch of the flag-driven if/elif chain.  The state      *)
(* carries no history: `open` is the per-APID list of collected segments,  *)
(* `used` the ids of raw packets that already contributed to an output,    *)
(* `last` the output (a sequence of raw packets) produced by the latest    *)
(* step, `warn` the warning issued by the latest step.                     *)
(*                                                                         *)
(* The model is the DEMANDED behaviour (property C12): a group is closed   *)
(* when its LAST packet arrives, whether it is delivered or rejected.      *)
(* AsIs = TRUE keeps the pinned tree's behaviour (the list is left in      *)
(* place after LAST) for the design-level counterexample.                  *)
(***************************************************************************)
EXTENDS Integers, Sequences, FiniteSets, TLC

CONSTANTS Apids, Seqs, AsIs, MaxLen
M == 16384
Flags == {"C", "F", "L", "U"}      \* CONTINUATION=0 FIRST=1 LAST=2 UNSEGMENTED=3

VARIABLES open, used, last, warn, n
vars == <<open, used, last, warn, n>>

Ids(g) == {g[i].id : i \in 1 .. Len(g)}
Consecutive(g) == \A i \in 1 .. Len(g) - 1 : ((g[i + 1].seq - g[i].seq) + M) % M = 1

Init == /\ open = [a \in Apids |-> <<>>] /\ used = {} /\ last = <<>> /\ warn = "none" /\ n = 0

Unseg(p) ==       /\ p.flag = "U"
                  /\ last' = <<p>> /\ used' = used \cup {p.id} /\ warn' = "none"
                  /\ UNCHANGED open

First(p) ==       /\ p.flag = "F"            \* supersedes an unfinished group of this APID, silently
                  /\ open' = [open EXCEPT ![p.apid] = <<p>>]
                  /\ last' = <<>> /\ warn' = "none" /\ UNCHANGED used

DropNoStart(p) == /\ p.flag \in {"C", "L"} /\ open[p.apid] = <<>>
                  /\ last' = <<>> /\ warn' = "nostart" /\ UNCHANGED <<open, used>>

Append_(p) ==     /\ p.flag = "C" /\ open[p.apid] # <<>>
                  /\ open' = [open EXCEPT ![p.apid] = Append(@, p)]
                  /\ last' = <<>> /\ warn' = "none" /\ UNCHANGED used

CloseOk(p) ==     /\ p.flag = "L" /\ open[p.apid] # <<>>
                  /\ LET g == Append(open[p.apid], p) IN
                       /\ Consecutive(g)
                       /\ last' = g /\ used' = used \cup Ids(g) /\ warn' = "none"
                       /\ open' = [open EXCEPT ![p.apid] = IF AsIs THEN g ELSE <<>>]

CloseGap(p) ==    /\ p.flag = "L" /\ open[p.apid] # <<>>
                  /\ LET g == Append(open[p.apid], p) IN
                       /\ ~Consecutive(g)
                       /\ last' = <<>> /\ warn' = "gap" /\ UNCHANGED used
                       /\ open' = [open EXCEPT ![p.apid] = IF AsIs THEN g ELSE <<>>]

Step(p) == Unseg(p) \/ First(p) \/ DropNoStart(p) \/ Append_(p) \/ CloseOk(p) \/ CloseGap(p)

Pkt(a, f, s) == [id |-> n + 1, apid |-> a, flag |-> f, seq |-> s]

\* one named action per branch so that -coverage shows each was exercised
DoUnseg       == n < MaxLen /\ n' = n + 1 /\ \E a \in Apids, s \in Seqs : Unseg(Pkt(a, "U", s))
DoFirst       == n < MaxLen /\ n' = n + 1 /\ \E a \in Apids, s \in Seqs : First(Pkt(a, "F", s))
DoDropNoStart == n < MaxLen /\ n' = n + 1 /\ \E a \in Apids, s \in Seqs, f \in {"C", "L"} : DropNoStart(Pkt(a, f, s))
DoAppend      == n < MaxLen /\ n' = n + 1 /\ \E a \in Apids, s \in Seqs : Append_(Pkt(a, "C", s))
DoCloseOk     == n < MaxLen /\ n' = n + 1 /\ \E a \in Apids, s \in Seqs : CloseOk(Pkt(a, "L", s))
DoCloseGap    == n < MaxLen /\ n' = n + 1 /\ \E a \in Apids, s \in Seqs : CloseGap(Pkt(a, "L", s))

Next == DoUnseg \/ DoFirst \/ DoDropNoStart \/ DoAppend \/ DoCloseOk \/ DoCloseGap
Spec == Init /\ [][Next]_vars

-----------------------------------------------------------------------------
OpenIds == UNION {Ids(open[a]) : a \in Apids}

TypeOK == /\ warn \in {"none", "gap", "nostart"} /\ n \in 0 .. MaxLen
          /\ \A a \in Apids : \A i \in 1 .. Len(open[a]) : open[a][i].apid = a

\* no raw packet that already contributed to an output is still waiting to contribute again
OpenUnused == OpenIds \cap used = {}
\* an open group is FIRST followed by CONTINUATIONs
OpenShape == \A a \in Apids : open[a] # <<>> =>
                /\ open[a][1].flag = "F"
                /\ \A i \in 2 .. Len(open[a]) : open[a][i].flag = "C"
\* an output is one unsegmented packet, or FIRST CONT* LAST of one APID with consecutive counts mod 16384
LastWellFormed ==
    last # <<>> =>
       \/ Len(last) = 1 /\ last[1].flag = "U"
       \/ /\ Len(last) >= 2
          /\ last[1].flag = "F" /\ last[Len(last)].flag = "L"
          /\ \A i \in 2 .. Len(last) - 1 : last[i].flag = "C"
          /\ \A i \in 1 .. Len(last) : last[i].apid = last[1].apid
          /\ Consecutive(last)
          /\ \A i \in 1 .. Len(last) - 1 : last[i].id < last[i + 1].id
\* no raw packet ever contributes to more than one output
NoReuseStep == [][Ids(last') \cap used = {}]_vars
\* a step leaves every other APID's state untouched; only the newest packet can complete an output
PerApidIndependent == [][\A a \in Apids : (open'[a] # open[a]) =>
                            \A b \in Apids \ {a} : open'[b] = open[b]]_vars
OnlyWhenComplete == [][last' # <<>> => last'[Len(last')].id = n + 1]_vars
=============================================================================
