---------------------------- MODULE Trace_StrBin ----------------------------
(* Evaluate StrBin!Decode on enumerated / logged cases and compare with the real StringParameterType /          *)
(* BinaryParameterType.parse_value.                                                                             *)
(* Line: {enc, env:[{name,v,r}], pkt:[bytes], pos, obs:{k:"val"|"err"|"decode-error", text:[bytes], raw:[bytes], adv}} *)
EXTENDS StrBin, Json, IOUtils
VARIABLES l
TLog == ndJsonDeserialize(IOEnv.TRACE_FILE)
EnvOf(list) == LET S == {list[i] : i \in 1 .. Len(list)}
               IN [nm \in {e.name : e \in S} |-> LET e == CHOOSE x \in S : x.name = nm IN [v |-> e.v, r |-> e.r]]
Check(x) == LET e == SBDecode(x.enc, EnvOf(x.env), x.pkt, x.pos) IN
    IF e.k = "undef" THEN "ok"
    ELSE IF e.k = "err" THEN (IF x.obs.k = "err" THEN "ok" ELSE "error-expected")
    ELSE IF x.obs.k # "val" THEN "value-expected"
    ELSE IF x.obs.adv # e.adv THEN "cursor"
    ELSE IF x.obs.raw # e.raw THEN "raw"
    ELSE IF x.enc.k = "str" /\ x.obs.text # e.text THEN "text"
    ELSE "ok"
Show(x) == LET e == SBDecode(x.enc, EnvOf(x.env), x.pkt, x.pos) IN ToJson(e)
Init == l = 1
Next == /\ l <= Len(TLog) + 1
        /\ IF l <= Len(TLog)
           THEN LET c == Check(TLog[l]) IN (c # "ok") => PrintT(<<"REJECT", l, c, Show(TLog[l])>>)
           ELSE PrintT(<<"DONE", Len(TLog)>>)
        /\ l' = l + 1
=============================================================================
