SPECIFICATION MCSpec
CONSTANTS
  TrimAt = 5
  DefaultSock = 4
  AsIs = FALSE
  Eager = FALSE
  DataLens = {1, 2, 3}
  MaxPackets = 2
  Skips = {0, 2}
  RSizes = {0, 1, 2, 5, 9}
  GarbageLen = 6
  GarbageAlphabet = {0, 1}
  WithCuts = TRUE
INVARIANT TypeOK
INVARIANT OutIsPrefix
INVARIANT OnlyComplete
INVARIANT AccountingExact
INVARIANT WindowOK
INVARIANT DoneExact
INVARIANT NoCrash
PROPERTY Terminates
PROPERTY ConfigFixed
CHECK_DEADLOCK FALSE
