---------------------------- MODULE Trace_Framer ----------------------------
(* Trace validation of ccsds_generator executions against Framer.                                    *)
(* Input: ndjson, one trace per line:                                                                *)
(*   {tid, kind, rsize, skip, total, stream:[{o,b}], ev:[{ev, asked, got, n, cur, parsed, need, idx}]} *)
(* Events: "top" "trim" "hdr" "emit" (in-repo hooks), "read" (our source object), "yield" "stop"      *)
(* (our consumer).  Unlogged model steps (NoTrim, HdrReady, BodyReady, give-up of a bytes source) are *)
(* silent.  The model is deterministic except for what a read returns, which the log binds, so the    *)
(* search is linear.  Verdicts are total: every trace prints exactly one ACCEPT or REJECT line.       *)
EXTENDS Framer, Json, IOUtils

VARIABLES tid, l, st
tvars == <<vars, tid, l, st>>

TLog == ndJsonDeserialize(IOEnv.TRACE_FILE)
Ev == TLog[tid].ev
E == Ev[l]

Sparse(pairs) == LET S == {pairs[i] : i \in 1 .. Len(pairs)}
                 IN [x \in {e.o : e \in S} |-> (CHOOSE e \in S : e.o = x).b]

TraceInit == \E t \in 1 .. Len(TLog) :
                /\ tid = t /\ l = 1 /\ st = "run"
                /\ InitWith(Sparse(TLog[t].stream), TLog[t].total, TLog[t].kind, TLog[t].rsize, TLog[t].skip)

IsEv(e) == st = "run" /\ l <= Len(Ev) /\ E.ev = e /\ l' = l + 1 /\ UNCHANGED <<tid, st>>
Quiet == st = "run" /\ UNCHANGED <<tid, l, st>>

TrTop   == IsEv("top") /\ E.parsed = parsed /\ (Top \/ TopStop)
TrTrim  == IsEv("trim") /\ E.cur = cur /\ E.buflen = srcpos - base /\ Trim
TrRead  == IsEv("read") /\ E.asked = Ask /\ E.got > 0 /\ (HdrRead(E.got) \/ BodyRead(E.got))
TrEof   == IsEv("read") /\ E.asked = Ask /\ E.got = 0 /\ 0 \in Gots /\ (HdrGiveUp \/ BodyGiveUp)
TrHdr   == IsEv("hdr") /\ Hdr /\ E.cur = cur' /\ E.need = need' /\ E.buflen = srcpos - base
TrEmit  == IsEv("emit") /\ Emit /\ E.cur = cur' /\ E.parsed = parsed' /\ E.n = out'[Len(out')].n
TrYield == IsEv("yield") /\ pc = "top" /\ E.idx = Len(out) /\ E.n = out[Len(out)].n /\ UNCHANGED vars
Silent  == Quiet /\ (NoTrim \/ HdrReady \/ BodyReady \/ (kind = "bytes" /\ (HdrGiveUp \/ BodyGiveUp)))

\* invariants evaluated at every consumed event (cheap forms; the O(n) ones are checked at Accept)
LastComplete == out # <<>> =>
                  LET o == out[Len(out)] IN /\ HaveLen(o.start) /\ o.n = HDR + LenField(o.start) + 1
                                            /\ o.start + o.n <= srcpos
AccountingTop == pc = "top" => parsed = base + cur
Good == TypeOK /\ WindowOK /\ LastComplete /\ AccountingTop /\ NoCrash
Step == Good /\ (TrTop \/ TrTrim \/ TrRead \/ TrEof \/ TrHdr \/ TrEmit \/ TrYield \/ Silent)

\* the consumer saw StopIteration: the model must be done, all invariants of the end state hold
AcceptGuard == Good /\ st = "run" /\ l = Len(Ev) /\ E.ev = "stop" /\ pc = "done"
Accept == /\ AcceptGuard
          /\ st' = IF out = Packets THEN "accepted" ELSE "rejected"
          /\ l' = l + 1
          /\ PrintT(<<IF out = Packets THEN "ACCEPT" ELSE "REJECT", tid, l, "DoneExact", ToJson(out)>>)
          /\ UNCHANGED <<vars, tid>>

Reject == /\ st = "run" /\ ~ENABLED Step /\ ~AcceptGuard
          /\ st' = "rejected"
          /\ PrintT(<<"REJECT", tid, l, IF Good THEN pc ELSE "invariant", IF l <= Len(Ev) THEN ToJson(E) ELSE "end-of-log">>)
          /\ UNCHANGED <<vars, tid, l>>

TraceNext == Step \/ Accept \/ Reject
TraceSpec == TraceInit /\ [][TraceNext]_tvars

TraceInv == st \in {"run", "accepted", "rejected"}
=============================================================================
