---------------------------- MODULE Trace_Framer ----------------------------
(* Trace validation of ccsds_generator executions against Framer.                                    *)
(* Input: ndjson, one trace per line:                                                                *)
(*   {tid, kind, rsize, skip, total, stream:[{o,b}], ev:[{ev, asked, got, n, idx, ...}]}             *)
(* Verdict-bearing events are the ones the property talks about, observed at the interface:          *)
(*   "read"  (our source object served a read()/recv(): asked, got)                                  *)
(*   "yield" (our consumer received item idx of n bytes)   "stop" (StopIteration)                    *)
(* The loop's internal steps are silent; the in-repo hooks (top/trim/hdr/emit) are not verdicts -    *)
(* internal accounting is not part of C02/C10 - the harness only uses them as coverage observers     *)
(* (e.g. that the 21 MB run reached the trim branch).  The model is deterministic except for what a  *)
(* read returns, which the log binds, so the search is linear.  Verdicts are total: every trace      *)
(* prints exactly one ACCEPT or REJECT line.                                                         *)
EXTENDS Framer, Json, IOUtils

VARIABLES tid, l, st
tvars == <<vars, tid, l, st>>

TLog == ndJsonDeserialize(IOEnv.TRACE_FILE)
Ev == TLog[tid].ev
E == Ev[l]

Sparse(pairs) == LET S == {pairs[i] : i \in 1 .. Len(pairs)}
                 IN [x \in {e.o : e \in S} |-> (CHOOSE e \in S : e.o = x).b]

TraceInit == \E t \in 1 .. Len(TLog) :
                /\ tid = t /\ l = 1 /\ st = "run"
                /\ InitWith(Sparse(TLog[t].stream), TLog[t].total, TLog[t].kind, TLog[t].rsize, TLog[t].skip)

IsEv(e) == st = "run" /\ l <= Len(Ev) /\ E.ev = e /\ l' = l + 1 /\ UNCHANGED <<tid, st>>
Quiet == st = "run" /\ UNCHANGED <<tid, l, st>>

\* a read is accepted whenever the implementation issues it (refill policy is free, Eager = TRUE); what it
\* returns must be consistent with the source: at most what remains, and empty only when drained
TrRead  == IsEv("read") /\ E.got > 0 /\ ReadBy(E.got)
TrEof   == IsEv("read") /\ E.got = 0 /\ Remaining = 0 /\ UNCHANGED vars
\* an item reaches the consumer: it must be the model's next Emit, with the same length
TrYield == IsEv("yield") /\ Emit /\ E.idx = Len(out') /\ E.n = out'[Len(out')].n
\* everything else in the loop is internal (not part of the property): silent
Silent  == Quiet /\ (Top \/ TopStop \/ Trim \/ NoTrim \/ HdrReady \/ Hdr \/ BodyReady \/ HdrGiveUp \/ BodyGiveUp)

\* invariants evaluated at every consumed event (cheap forms; the O(n) ones are checked at Accept)
LastComplete == out # <<>> =>
                  LET o == out[Len(out)] IN /\ HaveLen(o.start) /\ o.n = HDR + LenField(o.start) + 1
                                            /\ o.start + o.n <= srcpos
AccountingTop == pc = "top" => parsed = base + cur
Good == TypeOK /\ WindowOK /\ LastComplete /\ AccountingTop /\ NoCrash
Step == Good /\ (TrRead \/ TrEof \/ TrYield \/ Silent)

\* the consumer saw StopIteration: the model must be done, all invariants of the end state hold
AcceptGuard == Good /\ st = "run" /\ l = Len(Ev) /\ E.ev = "stop" /\ pc = "done"
Accept == /\ AcceptGuard
          /\ st' = IF out = Packets THEN "accepted" ELSE "rejected"
          /\ l' = l + 1
          /\ PrintT(<<IF out = Packets THEN "ACCEPT" ELSE "REJECT", tid, l, "DoneExact", ToJson(out)>>)
          /\ UNCHANGED <<vars, tid>>

Reject == /\ st = "run" /\ ~ENABLED Step /\ ~AcceptGuard
          /\ st' = "rejected"
          /\ PrintT(<<"REJECT", tid, l, IF Good THEN pc ELSE "invariant", IF l <= Len(Ev) THEN ToJson(E) ELSE "end-of-log">>)
          /\ UNCHANGED <<vars, tid, l>>

TraceNext == Step \/ Accept \/ Reject
TraceSpec == TraceInit /\ [][TraceNext]_tvars

TraceInv == st \in {"run", "accepted", "rejected"}
=============================================================================
