INIT TraceInit
NEXT TraceNext
INVARIANT TraceInv
CHECK_DEADLOCK FALSE
