------------------------------ MODULE Criteria ------------------------------
(***************************************************************************)
(* Match criteria: Comparison, ComparisonList, Condition, BooleanExpression  *)
(* (ANDed / ORed groups nested to any depth) and DiscreteLookup. Property    *)
(* C06: evaluation returns the mathematical truth of the stated relation.    *)
(*                                                                         *)
(* Values are typed records (numbers small enough for exact 32-bit cross-    *)
(* multiplication): [t|->"int",n] [t|->"bool",n] [t|->"flt",num,den]         *)
(* [t|->"str",s] and [t|->"none"].  A literal is [k|->"num",neg,ip,fd,txt]   *)
(* (decimal: integer part, fraction digits) or [k|->"txt",txt]; it is        *)
(* interpreted in the type of the value it is compared to.                   *)
(* Truth values are three-valued: "T", "F" and "U" (the relation is not      *)
(* defined: missing operand, literal not expressible in the operand's type,  *)
(* ordering of non-numbers).  Groups use Kleene conjunction / disjunction,   *)
(* which is independent of evaluation order; an implementation may answer    *)
(* "U" cases with an error or with any truth value.                          *)
(***************************************************************************)
EXTENDS Integers, Sequences, FiniteSets, TLC

Undef == [t |-> "undef"]
IsNum(v) == v.t \in {"int", "bool", "flt"}
RatOf(v) == IF v.t = "flt" THEN <<v.num, v.den>> ELSE <<v.n, 1>>
RLess(a, b) == a[1] * b[2] < b[1] * a[2]
REq(a, b) == a[1] * b[2] = b[1] * a[2]

OpCanon(op) == CASE op \in {"==", "eq"} -> "eq"
                 [] op \in {"!=", "neq", "ne"} -> "ne"
                 [] op \in {"<", "lt", "&lt;"} -> "lt"
                 [] op \in {">", "gt", "&gt;"} -> "gt"
                 [] op \in {"<=", "leq", "&lt;=", "le"} -> "le"
                 [] op \in {">=", "geq", "&gt;=", "ge"} -> "ge"
NegOp(o) == CASE o = "eq" -> "ne" [] o = "ne" -> "eq" [] o = "lt" -> "ge" [] o = "ge" -> "lt"
              [] o = "gt" -> "le" [] o = "le" -> "gt"
B2K(b) == IF b THEN "T" ELSE "F"
KNot(k) == CASE k = "T" -> "F" [] k = "F" -> "T" [] k = "U" -> "U"
KAnd(S) == IF "F" \in S THEN "F" ELSE IF "U" \in S THEN "U" ELSE "T"
KOr(S) == IF "T" \in S THEN "T" ELSE IF "U" \in S THEN "U" ELSE "F"

NumRel(o, a, b) == CASE o = "eq" -> REq(a, b) [] o = "ne" -> ~REq(a, b)
                     [] o = "lt" -> RLess(a, b) [] o = "gt" -> RLess(b, a)
                     [] o = "le" -> ~RLess(b, a) [] o = "ge" -> ~RLess(a, b)

\* the stated relation o between typed values a and b
Rel(o, a, b) ==
    IF a.t \in {"wide", "none"} \/ b.t \in {"wide", "none"} THEN "U"     \* operand outside the exact domain / absent
    ELSE IF IsNum(a) /\ IsNum(b) THEN B2K(NumRel(o, RatOf(a), RatOf(b)))
    ELSE IF a.t = "str" /\ b.t = "str" THEN (IF o = "eq" THEN B2K(a.s = b.s) ELSE IF o = "ne" THEN B2K(a.s # b.s) ELSE "U")
    ELSE IF o = "eq" THEN "F" ELSE IF o = "ne" THEN "T" ELSE "U"

RECURSIVE DigitsVal(_)
DigitsVal(d) == IF d = <<>> THEN 0 ELSE 10 * DigitsVal(SubSeq(d, 1, Len(d) - 1)) + d[Len(d)]
\* the literal in the type of the value v it is compared to
LitAs(lit, v) ==
    CASE v.t \in {"int", "bool"} ->
            IF lit.k = "num" /\ lit.fd = <<>> THEN [t |-> "int", n |-> IF lit.neg THEN 0 - lit.ip ELSE lit.ip] ELSE Undef
      [] v.t = "flt" ->
            IF lit.k = "num"
            THEN LET den == 10 ^ Len(lit.fd)
                     mag == lit.ip * den + DigitsVal(lit.fd)
                 IN [t |-> "flt", num |-> IF lit.neg THEN 0 - mag ELSE mag, den |-> den]
            ELSE Undef
      [] v.t = "str" -> [t |-> "str", s |-> lit.txt]
      [] OTHER -> Undef

\* env: function from parameter names to [v |-> derived value, r |-> raw value]
Pick(env, name, cal) == IF cal THEN env[name].v ELSE env[name].r

\* <xtce:Comparison>: cur is the raw value currently being decoded (or [t |-> "none"])
EvalCmp(c, env, cur) ==
    LET has == c.ref \in DOMAIN env
        v == IF has THEN Pick(env, c.ref, c.cal) ELSE cur
    IN IF ~has /\ cur.t = "none" THEN "U"
       ELSE LET lit == LitAs(c.lit, v) IN IF lit.t = "undef" THEN "U" ELSE Rel(OpCanon(c.op), v, lit)

\* <xtce:Condition>: parameter against parameter or literal
EvalCond(c, env) ==
    IF c.l \notin DOMAIN env THEN "U"
    ELSE LET lv == Pick(env, c.l, c.lcal)
         IN IF c.rk = "param"
            THEN (IF c.r \notin DOMAIN env THEN "U" ELSE Rel(OpCanon(c.op), lv, Pick(env, c.r, c.rcal)))
            ELSE LET lit == LitAs(c.lit, lv) IN IF lit.t = "undef" THEN "U" ELSE Rel(OpCanon(c.op), lv, lit)

\* <xtce:BooleanExpression>: a Condition, or ANDed / ORed groups of Conditions and nested groups
RECURSIVE EvalB(_, _)
EvalB(e, env) ==
    CASE e.k = "cond" -> EvalCond(e, env)
      [] e.k = "and" -> KAnd({EvalCond(e.conds[i], env) : i \in 1 .. Len(e.conds)}
                             \cup {EvalB(e.groups[i], env) : i \in 1 .. Len(e.groups)})
      [] e.k = "or" -> KOr({EvalCond(e.conds[i], env) : i \in 1 .. Len(e.conds)}
                           \cup {EvalB(e.groups[i], env) : i \in 1 .. Len(e.groups)})

\* a ComparisonList is a conjunction
EvalList(items, env, cur) == KAnd({EvalCmp(items[i], env, cur) : i \in 1 .. Len(items)})

\* one criterion of a criteria list (restriction criteria, context match): comparison or boolean expression
EvalCrit(c, env, cur) == IF c.k = "cmp" THEN EvalCmp(c, env, cur) ELSE EvalB(c, env)
EvalAll(crits, env, cur) == KAnd({EvalCrit(crits[i], env, cur) : i \in 1 .. Len(crits)})

\* DiscreteLookup list: value of the first entry whose criteria all hold.
\* Result: [k |-> "val", n] | [k |-> "none"] | [k |-> "undef"]
Lookup(entries, env, cur) ==
    LET ev(i) == EvalList(entries[i].items, env, cur)
        hits == {i \in 1 .. Len(entries) : ev(i) # "F"}
    IN IF hits = {} THEN [k |-> "none"]
       ELSE LET i == CHOOSE j \in hits : \A h \in hits : j <= h
            IN IF ev(i) = "T" THEN [k |-> "val", n |-> entries[i].val] ELSE [k |-> "undef"]

\* ---- algebraic self-check used by the exhaustive run: De Morgan dual of an expression
RECURSIVE Dual(_)
DualCond(c) == [c EXCEPT !.op = NegOp(OpCanon(c.op))]
Dual(e) == CASE e.k = "cond" -> DualCond(e)
             [] e.k = "and" -> [k |-> "or", conds |-> [i \in 1 .. Len(e.conds) |-> DualCond(e.conds[i])],
                                groups |-> [i \in 1 .. Len(e.groups) |-> Dual(e.groups[i])]]
             [] e.k = "or" -> [k |-> "and", conds |-> [i \in 1 .. Len(e.conds) |-> DualCond(e.conds[i])],
                               groups |-> [i \in 1 .. Len(e.groups) |-> Dual(e.groups[i])]]
\* NegOp yields canonical names ("eq", "ne", "lt", "gt", "le", "ge"), which OpCanon accepts as spellings too
\* (internal to the specification; the library's own table has no "ne" / "le" / "ge")
=============================================================================
