INIT TraceInit
NEXT TraceNext
CONSTANTS
  TrimAt = 20000000
  DefaultSock = 4096
  AsIs = FALSE
  Eager = TRUE
INVARIANT TraceInv
CHECK_DEADLOCK FALSE
