INIT TraceInit
NEXT TraceNext
CONSTANTS
  TrimAt = 20000000
  DefaultSock = 4096
  AsIs = FALSE
INVARIANT TraceInv
CHECK_DEADLOCK FALSE
