------------------------------- MODULE Header -------------------------------
(***************************************************************************)
(* CCSDS primary header: create_ccsds_packet (range validation, shift-and-  *)
(* or packing) and the RawPacketData accessors (bit-field extraction,       *)
(* data_length derived from the total size).  Property C13.                 *)
(***************************************************************************)
EXTENDS HeaderOps

VARIABLES fields, dlen, hdr, acc, pc
vars == <<fields, dlen, hdr, acc, pc>>

InitWith(f, n) == fields = f /\ dlen = n /\ hdr = <<>> /\ acc = <<>> /\ pc = "call"

Create == /\ pc = "call" /\ Valid(fields, dlen)
          /\ hdr' = Pack(fields, dlen) /\ pc' = "built" /\ UNCHANGED <<fields, dlen, acc>>
Reject == /\ pc = "call" /\ ~Valid(fields, dlen)
          /\ pc' = "rejected" /\ UNCHANGED <<fields, dlen, hdr, acc>>     \* ValueError, nothing constructed
\* accessors on the constructed packet (total size = 6 + dlen): data_length comes from the size
Access == /\ pc = "built"
          /\ acc' = Unpack(hdr) @@ [len |-> (6 + dlen) - 6 - 1]
          /\ pc' = "read" /\ UNCHANGED <<fields, dlen, hdr>>
Next == Create \/ Reject \/ Access

\* C13
RoundTrip == pc = "read" => /\ \A k \in DOMAIN Max : acc[k] = fields[k]
                            /\ acc.len = dlen - 1
                            /\ LenField(hdr) = dlen - 1            \* what the framer will read
PackUnpack == pc \in {"built", "read"} => Pack(Unpack(hdr), LenField(hdr) + 1) = hdr
BytesInRange == pc \in {"built", "read"} => \A i \in 1 .. 6 : hdr[i] \in 0 .. 255
NothingBuiltWhenInvalid == pc = "rejected" => hdr = <<>> /\ ~Valid(fields, dlen)
=============================================================================
