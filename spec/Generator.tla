------------------------------ MODULE Generator ------------------------------
(***************************************************************************)
(* Stream level of XtcePacketDefinition.packet_generator: several generator  *)
(* objects created from ONE definition, each over its own packet stream and  *)
(* options, advanced by next() in any interleaving.  Property C11 (and the   *)
(* stream level of C01/C14).                                                 *)
(*                                                                         *)
(* Per-packet decoding is Decode.tla; its end state for every packet         *)
(* (status, exact = cursor equals the packet's bits) is an input here.       *)
(* One next() call = one Advance (skip the packets that yield nothing, then  *)
(* yield one item) or Finish (StopIteration).                                *)
(***************************************************************************)
EXTENDS Integers, Sequences, FiniteSets, TLC, Json, IOUtils

GCases == ndJsonDeserialize(IOEnv.TRACE_FILE)
\* case: [gens |-> <<[opts |-> [parse_bad, yield_unrec, hdr_only], pk |-> <<[status, exact]>>]>>]

VARIABLES cid, idx, out, done
gvars == <<cid, idx, out, done>>
Gens == 1 .. Len(GCases[cid].gens)
GenOf(g) == GCases[cid].gens[g]

\* what the generator does with one packet, by the end state of its decoding and the generator's options
Classify(p, o) ==
    IF o.hdr_only THEN "yield_raw"
    ELSE CASE p.status = "ok" /\ p.exact -> "yield"
           [] p.status = "ok" /\ ~p.exact -> IF o.parse_bad THEN "yield_warn" ELSE "skip_bad"
           [] p.status = "unrec" -> IF o.yield_unrec THEN "unrec_yield" ELSE "unrec_skip"
           [] OTHER -> "unspecified"
Yields(k) == k \in {"yield", "yield_warn", "unrec_yield", "yield_raw"}
KindAt(g, i) == Classify(GenOf(g).pk[i], GenOf(g).opts)
\* indices >= idx[g] of packets that yield an item
Pending(g) == {i \in idx[g] .. Len(GenOf(g).pk) : Yields(KindAt(g, i))}

GInit == \E c \in 1 .. Len(GCases) :
            /\ cid = c
            /\ idx = [g \in 1 .. Len(GCases[c].gens) |-> 1]
            /\ out = [g \in 1 .. Len(GCases[c].gens) |-> <<>>]
            /\ done = [g \in 1 .. Len(GCases[c].gens) |-> FALSE]

Advance(g) == /\ ~done[g] /\ Pending(g) # {}
              /\ LET j == CHOOSE i \in Pending(g) : \A h \in Pending(g) : i <= h IN
                   /\ out' = [out EXCEPT ![g] = Append(@, [id |-> j, kind |-> KindAt(g, j)])]
                   /\ idx' = [idx EXCEPT ![g] = j + 1]
              /\ UNCHANGED <<cid, done>>
Finish(g) ==  /\ ~done[g] /\ Pending(g) = {}
              /\ done' = [done EXCEPT ![g] = TRUE]
              /\ idx' = [idx EXCEPT ![g] = Len(GenOf(g).pk) + 1]
              /\ UNCHANGED <<cid, out>>
GNext == \E g \in Gens : Advance(g) \/ Finish(g)
GSpec == GInit /\ [][GNext]_gvars

\* Python type of a yielded item, and the number of length-mismatch warnings one next() call emits: one per processed packet
\* whose decoding ended ok but not exactly at the packet's end (whether it is then yielded or withheld)
TyOf(k) == CASE k \in {"yield", "yield_warn"} -> "pkt" [] k = "unrec_yield" -> "err" [] k = "yield_raw" -> "raw"
Warns(g, from, to) == Cardinality({i \in from .. to : /\ ~GenOf(g).opts.hdr_only
                                                      /\ GenOf(g).pk[i].status = "ok" /\ ~GenOf(g).pk[i].exact})

\* C11: what a generator has yielded is exactly the per-packet classification of its stream prefix, in order
RECURSIVE Expected(_, _, _)
Expected(g, i, upto) == IF i > upto THEN <<>>
                        ELSE (IF Yields(KindAt(g, i)) THEN <<[id |-> i, kind |-> KindAt(g, i)]>> ELSE <<>>) \o Expected(g, i + 1, upto)
OutEqualsPerPacket == \A g \in Gens : out[g] = Expected(g, 1, idx[g] - 1)
\* advancing one generator never changes another one
NoCrossTalk == [][\A g \in Gens : (out'[g] # out[g] \/ idx'[g] # idx[g] \/ done'[g] # done[g]) =>
                     \A h \in Gens \ {g} : out'[h] = out[h] /\ idx'[h] = idx[h] /\ done'[h] = done[h]]_gvars
DoneMeansAll == \A g \in Gens : done[g] => out[g] = Expected(g, 1, Len(GenOf(g).pk))
=============================================================================
