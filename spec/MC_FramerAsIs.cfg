SPECIFICATION MCSpec
CONSTANTS
  TrimAt = 5
  DefaultSock = 4
  AsIs = TRUE
  Eager = FALSE
  DataLens = {1}
  MaxPackets = 1
  Skips = {0}
  RSizes = {0}
  GarbageLen = 0
  GarbageAlphabet = {0}
  WithCuts = TRUE
INVARIANT NoCrash
INVARIANT OnlyComplete
CHECK_DEADLOCK FALSE
