------------------------------ MODULE LoaderRes ------------------------------
(***************************************************************************)
(* XtcePacketDefinition.from_xtce: the three passes that build the object    *)
(* graph (parameter types, parameters, containers with recursive descent     *)
(* through base and nested references into a lookup that is mutated on the   *)
(* way, duplicate rules, by-name element search, inheritor back-population). *)
(* Property C17: a loaded definition is a consistent object graph; broken    *)
(* documents fail at load.                                                   *)
(*                                                                         *)
(* A document is abstract: types: <<names>>; params: <<[name, type]>>;       *)
(* conts: <<[name, base, entries: <<<<"p"|"c", name>>>>, variant]>> in        *)
(* document order (variant distinguishes conflicting duplicates).  Objects    *)
(* are identified by allocation index in `heap`, so identity is expressible. *)
(* The recursion of SequenceContainer.from_xml is an explicit stack.         *)
(***************************************************************************)
EXTENDS Integers, Sequences, FiniteSets, TLC, Json, IOUtils

MaxDepth == 12        \* stands for Python's recursion limit: deeper means a reference cycle
DCases == ndJsonDeserialize(IOEnv.TRACE_FILE)

VARIABLES cid, pc, i, tset, pset, lookup, heap, stack, inh, why
lvars == <<cid, pc, i, tset, pset, lookup, heap, stack, inh, why>>
Doc == DCases[cid].doc
Conts == Doc.conts

Dom(f) == {p[1] : p \in f}
Get(f, k) == (CHOOSE p \in f : p[1] = k)[2]
Put(f, k, v) == {p \in f : p[1] # k} \cup {<<k, v>>}
Count(nm) == Cardinality({j \in 1 .. Len(Conts) : Conts[j].name = nm})
IndexOf(nm) == CHOOSE j \in 1 .. Len(Conts) : Conts[j].name = nm
Top == stack[Len(stack)]
SetTop(f) == [stack EXCEPT ![Len(stack)] = f]

\* value equality of two container objects (dataclass __eq__): names, base, variant and entries, nested objects by value
RECURSIVE EqObj(_, _, _)
EqObj(a, b, d) ==
    /\ heap[a].name = heap[b].name /\ heap[a].base = heap[b].base /\ heap[a].variant = heap[b].variant
    /\ Len(heap[a].ents) = Len(heap[b].ents)
    /\ \A k \in 1 .. Len(heap[a].ents) :
          LET x == heap[a].ents[k]  y == heap[b].ents[k] IN
          /\ x[1] = y[1]
          /\ IF x[1] = "p" THEN x[2] = y[2] ELSE (d > 0 /\ EqObj(x[2], y[2], d - 1))

InitDoc(c) == /\ cid = c /\ pc = "types" /\ i = 1 /\ tset = {} /\ pset = {} /\ lookup = {} /\ heap = <<>> /\ stack = <<>>
              /\ inh = {} /\ why = ""
Reject(r) == pc' = "rejected" /\ why' = r /\ UNCHANGED <<cid, i, tset, pset, lookup, heap, stack, inh>>

\* ---- pass 1 and 2
TypeStep == /\ pc = "types"
            /\ IF i > Len(Doc.types) THEN pc' = "params" /\ i' = 1 /\ UNCHANGED <<cid, tset, pset, lookup, heap, stack, inh, why>>
               ELSE IF Doc.types[i] \in tset THEN Reject("duplicate parameter type")
               ELSE tset' = tset \cup {Doc.types[i]} /\ i' = i + 1 /\ UNCHANGED <<cid, pc, pset, lookup, heap, stack, inh, why>>
ParamStep == /\ pc = "params"
             /\ IF i > Len(Doc.params) THEN pc' = "conts" /\ i' = 1 /\ UNCHANGED <<cid, tset, pset, lookup, heap, stack, inh, why>>
                ELSE IF Doc.params[i].type \notin tset THEN Reject("parameter type not defined")
                ELSE IF Doc.params[i].name \in pset THEN Reject("duplicate parameter")
                ELSE pset' = pset \cup {Doc.params[i].name} /\ i' = i + 1 /\ UNCHANGED <<cid, pc, tset, lookup, heap, stack, inh, why>>

\* ---- pass 3: containers
Frame(el, ret) == [el |-> el, stage |-> "base", k |-> 1, ents |-> <<>>, ret |-> ret]
ContStart == /\ pc = "conts" /\ stack = <<>> /\ i <= Len(Conts)
             /\ stack' = <<Frame(i, "top")>> /\ UNCHANGED <<cid, pc, i, tset, pset, lookup, heap, inh, why>>
ContsDone == /\ pc = "conts" /\ stack = <<>> /\ i > Len(Conts)
             /\ pc' = "inherit" /\ UNCHANGED <<cid, i, tset, pset, lookup, heap, stack, inh, why>>
Descend(nm, ret) == IF Count(nm) # 1 THEN Reject("referenced container not found exactly once")
                    ELSE IF Len(stack) >= MaxDepth THEN Reject("reference cycle (recursion limit)")
                    ELSE stack' = Append(stack, Frame(IndexOf(nm), ret)) /\ UNCHANGED <<cid, pc, i, tset, pset, lookup, heap, inh, why>>
BaseStage == /\ pc = "conts" /\ stack # <<>> /\ Top.stage = "base"
             /\ LET e == Conts[Top.el] IN
                IF e.base = "" \/ (Count(e.base) = 1 /\ e.base \in Dom(lookup))
                THEN stack' = SetTop([Top EXCEPT !.stage = "entries"]) /\ UNCHANGED <<cid, pc, i, tset, pset, lookup, heap, inh, why>>
                ELSE Descend(e.base, "base")
EntryStage == /\ pc = "conts" /\ stack # <<>> /\ Top.stage = "entries"
              /\ LET e == Conts[Top.el] IN
                 IF Top.k > Len(e.entries)
                 THEN stack' = SetTop([Top EXCEPT !.stage = "finish"]) /\ UNCHANGED <<cid, pc, i, tset, pset, lookup, heap, inh, why>>
                 ELSE LET en == e.entries[Top.k] IN
                      IF en[1] = "p"
                      THEN (IF en[2] \notin pset THEN Reject("entry refers to an undefined parameter")
                            ELSE stack' = SetTop([Top EXCEPT !.ents = Append(@, <<"p", en[2]>>), !.k = @ + 1])
                                 /\ UNCHANGED <<cid, pc, i, tset, pset, lookup, heap, inh, why>>)
                      ELSE (IF en[2] \in Dom(lookup)
                            THEN stack' = SetTop([Top EXCEPT !.ents = Append(@, <<"c", Get(lookup, en[2])>>), !.k = @ + 1])
                                 /\ UNCHANGED <<cid, pc, i, tset, pset, lookup, heap, inh, why>>
                            ELSE Descend(en[2], "entry"))
Finish == /\ pc = "conts" /\ stack # <<>> /\ Top.stage = "finish"
          /\ LET e == Conts[Top.el]
                 id == Len(heap) + 1
                 obj == [name |-> e.name, base |-> e.base, ents |-> Top.ents, variant |-> e.variant]
                 rest == SubSeq(stack, 1, Len(stack) - 1)
             IN /\ heap' = Append(heap, obj)
                /\ CASE Top.ret = "top" ->
                          IF e.name \notin Dom(lookup)
                          THEN lookup' = Put(lookup, e.name, id) /\ i' = i + 1 /\ stack' = rest /\ UNCHANGED <<cid, pc, tset, pset, inh, why>>
                          ELSE IF LET h2 == Append(heap, obj) IN
                                  \* compare the registered object with the new one, by value
                                  LET a == Get(lookup, e.name) IN
                                  /\ h2[a].name = obj.name /\ h2[a].base = obj.base /\ h2[a].variant = obj.variant
                                  /\ Len(h2[a].ents) = Len(obj.ents)
                                  /\ \A k \in 1 .. Len(obj.ents) : h2[a].ents[k][1] = obj.ents[k][1]
                                        /\ (obj.ents[k][1] = "p" => h2[a].ents[k][2] = obj.ents[k][2])
                                        /\ (obj.ents[k][1] = "c" => h2[h2[a].ents[k][2]].name = h2[obj.ents[k][2]].name
                                                                    /\ h2[h2[a].ents[k][2]].variant = h2[obj.ents[k][2]].variant)
                               THEN i' = i + 1 /\ stack' = rest /\ UNCHANGED <<cid, pc, tset, pset, lookup, inh, why>>
                               ELSE pc' = "rejected" /\ why' = "duplicate container with different content"
                                    /\ UNCHANGED <<cid, i, tset, pset, lookup, stack, inh>>
                     [] Top.ret = "base" ->
                          /\ lookup' = Put(lookup, e.name, id)
                          /\ stack' = [rest EXCEPT ![Len(rest)].stage = "entries"]
                          /\ UNCHANGED <<cid, pc, i, tset, pset, inh, why>>
                     [] Top.ret = "entry" ->
                          /\ lookup' = Put(lookup, e.name, id)
                          /\ stack' = [rest EXCEPT ![Len(rest)].ents = Append(@, <<"c", id>>), ![Len(rest)].k = @ + 1]
                          /\ UNCHANGED <<cid, pc, i, tset, pset, inh, why>>

\* ---- inheritor back-population
Inherit == /\ pc = "inherit"
           /\ IF \E nm \in Dom(lookup) : heap[Get(lookup, nm)].base # "" /\ heap[Get(lookup, nm)].base \notin Dom(lookup)
              THEN Reject("base container not loaded")
              ELSE /\ inh' = {<<b, {nm \in Dom(lookup) : heap[Get(lookup, nm)].base = b}>> : b \in Dom(lookup)}
                   /\ pc' = "accepted" /\ UNCHANGED <<cid, i, tset, pset, lookup, heap, stack, why>>

LNext == TypeStep \/ ParamStep \/ ContStart \/ ContsDone \/ BaseStage \/ EntryStage \/ Finish \/ Inherit
Done == pc \in {"accepted", "rejected"}

\* ---- C17 on the model itself
\* every container reference held by a registered object is THE registered object of that name
ReferencesShareIdentity ==
    pc = "accepted" => \A nm \in Dom(lookup) : \A k \in 1 .. Len(heap[Get(lookup, nm)].ents) :
                          LET x == heap[Get(lookup, nm)].ents[k] IN x[1] = "c" => x[2] = Get(lookup, heap[x[2]].name)
InheritorsExact ==
    pc = "accepted" => \A b \in Dom(lookup) : Get(inh, b) = {j \in Dom(lookup) : heap[Get(lookup, j)].base = b}
\* documents that are broken in the ways the property lists are never accepted
Dangling == \/ \E j \in 1 .. Len(Doc.params) : Doc.params[j].type \notin {Doc.types[t] : t \in 1 .. Len(Doc.types)}
            \/ \E j \in 1 .. Len(Conts) : \/ (Conts[j].base # "" /\ Count(Conts[j].base) = 0)
                                          \/ \E k \in 1 .. Len(Conts[j].entries) :
                                               \/ (Conts[j].entries[k][1] = "p" /\ Conts[j].entries[k][2] \notin {Doc.params[p].name : p \in 1 .. Len(Doc.params)})
                                               \/ (Conts[j].entries[k][1] = "c" /\ Count(Conts[j].entries[k][2]) = 0)
DupTypeOrParam == \/ \E a, b \in 1 .. Len(Doc.types) : a # b /\ Doc.types[a] = Doc.types[b]
                  \/ \E a, b \in 1 .. Len(Doc.params) : a # b /\ Doc.params[a].name = Doc.params[b].name
BrokenRejected == (pc = "accepted") => (~Dangling /\ ~DupTypeOrParam)
=============================================================================
