SPECIFICATION Spec
CONSTANTS
  Apids = {1, 2}
  FieldSets = {"a", "b"}
  MaxPackets = 4
  MaxFiles = 2
INVARIANT Ordered
INVARIANT Complete
INVARIANT OnlyOwn
INVARIANT RejectIff
PROPERTY Terminates
CHECK_DEADLOCK FALSE
