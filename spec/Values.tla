-------------------------------- MODULE Values --------------------------------
(***************************************************************************)
(* Parsed parameter values (property C20): a value object is a built-in      *)
(* value v of its kind plus a raw value; construction takes the raw argument *)
(* or, when it is None - and only then - the value itself; copy, deep copy   *)
(* and pickling (protocols 0..5) are the identity on (kind, v, raw).  Under  *)
(* the refinement Builtin(p) = p.v every built-in operation commutes; the    *)
(* built-in side of that comparison is Python itself.                        *)
(* Values are abstract tokens; the harness maps each token to concrete       *)
(* Python values (0, negative, 2^70, NaN, inf, -0.0, empty / non-ASCII text, *)
(* ...).                                                                     *)
(***************************************************************************)
EXTENDS Integers, Sequences, TLC, Json

Kinds == {"Int", "Float", "Str", "Binary", "Bool"}
ValTokens(k) == CASE k = "Int" -> {"zero", "one", "neg", "huge"}
                  [] k = "Float" -> {"fzero", "negzero", "fone", "fneg", "nan", "inf", "neginf", "tiny"}
                  [] k = "Str" -> {"sempty", "ascii", "nonascii", "nul"}
                  [] k = "Binary" -> {"bempty", "bytes", "bnul"}
                  [] k = "Bool" -> {"false", "true"}
\* the raw argument: None, or a falsy / truthy value of any encoded type
RawTokens == {"None", "zero", "one", "neg", "fzero", "fone", "bempty", "bytes", "sempty", "ascii", "false", "true"}
Steps == {"copy", "deepcopy", "pickle0", "pickle1", "pickle2", "pickle3", "pickle4", "pickle5"}
CONSTANT MaxSteps

VARIABLES kind, v, rawarg, obj, done
vars == <<kind, v, rawarg, obj, done>>

New(k, val, r) == [kind |-> k, v |-> val, raw |-> IF r = "None" THEN val ELSE r]

Init == \E k \in Kinds : \E val \in ValTokens(k) : \E r \in RawTokens :
           /\ kind = k /\ v = val /\ rawarg = r /\ obj = New(k, val, r) /\ done = <<>>
Step(s) == /\ Len(done) < MaxSteps
           /\ obj' = obj                      \* copying / pickling is the identity on the abstract state
           /\ done' = Append(done, s)
           /\ UNCHANGED <<kind, v, rawarg>>
Next == \E s \in Steps : Step(s)
Spec == Init /\ [][Next]_vars

\* C20: the raw value equals the value itself exactly when no separate raw value was given - also for falsy raw arguments
RawRule == obj.raw = (IF rawarg = "None" THEN v ELSE rawarg) /\ obj.v = v /\ obj.kind = kind
Preserved == [][obj' = obj]_vars
Export == Len(done) = MaxSteps => PrintT(<<"R", ToJson([kind |-> kind, v |-> v, rawarg |-> rawarg, raw |-> obj.raw, steps |-> done])>>)
=============================================================================
