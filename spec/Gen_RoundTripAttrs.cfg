INIT GInit
NEXT GNext
CHECK_DEADLOCK FALSE
