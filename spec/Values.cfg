SPECIFICATION Spec
CONSTANTS
  MaxSteps = 3
INVARIANT RawRule
PROPERTY Preserved
CHECK_DEADLOCK FALSE
