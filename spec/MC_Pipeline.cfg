SPECIFICATION MCSpec
CONSTANTS
  TrimAt = 5
  DefaultSock = 4
  AsIs = FALSE
  Eager = FALSE
  ParseBad = TRUE
  YieldUnrec = FALSE
  MaxPackets = 2
  Skips = {0, 2}
  RSizes = {0, 2, 7}
  WithCuts = TRUE
INVARIANT ResultsFollowOut
INVARIANT EndToEnd
INVARIANT DoneExact
INVARIANT NoCrash
PROPERTY Terminates
CHECK_DEADLOCK FALSE
