------------------------------- MODULE Pipeline -------------------------------
(***************************************************************************)
(* Composition of the stream framer with per-packet decoding and the          *)
(* generator's classification: XtcePacketDefinition.packet_generator over a   *)
(* byte source.  Framer.tla supplies the loop; every Emit hands one packet    *)
(* to the decoder.  The definition is the small fixed one the harness also    *)
(* builds for the real library (PipelineDefn): by APID (second header byte)   *)
(*   1 : two data bytes A, B            (exact iff the data field is 2 bytes) *)
(*   2 : one binary field = the whole data field            (always exact)    *)
(*   other : abstract root with no matching child           (unrecognized)    *)
(* The end-to-end claim (C01 at stream level, C02, C10, C11 together): what   *)
(* the generator yields is the per-packet classification of the packets of    *)
(* the stream, in order, whatever the source kind, read size, prefix and      *)
(* fragmentation, and whatever point the source dies at.                      *)
(***************************************************************************)
EXTENDS Framer

CONSTANTS ParseBad, YieldUnrec
VARIABLES results           \* what the generator has yielded: <<[pkt |-> index in out, kind]>>
pvars == <<vars, results>>

Apid(o) == stream[o.start + 1]
DataLen(o) == o.n - HDR
\* end state of decoding one packet, by the fixed definition
Status(o) == IF Apid(o) = 1 THEN (IF DataLen(o) >= 2 THEN "ok" ELSE "poisoned")
             ELSE IF Apid(o) = 2 THEN "ok" ELSE "unrec"
Exact(o) == IF Apid(o) = 1 THEN DataLen(o) = 2 ELSE TRUE
Kind(o) == CASE Status(o) = "ok" /\ Exact(o) -> "yield"
             [] Status(o) = "ok" /\ ~Exact(o) -> IF ParseBad THEN "yield_warn" ELSE "skip_bad"
             [] Status(o) = "unrec" -> IF YieldUnrec THEN "unrec_yield" ELSE "unrec_skip"
             [] Status(o) = "poisoned" -> IF ParseBad THEN "yield_warn" ELSE "skip_bad"     \* aligned over-read: flagged
Yields(k) == k \in {"yield", "yield_warn", "unrec_yield"}

PInit(s, tot, k, r, sk) == InitWith(s, tot, k, r, sk) /\ results = <<>>
\* every step of the framer; an Emit also runs the decoder and the classification on the emitted packet
PNext == /\ Next
         /\ IF pc = "emit"
            THEN LET o == out'[Len(out')] IN
                 results' = IF Yields(Kind(o)) THEN Append(results, [pkt |-> Len(out'), kind |-> Kind(o)]) ELSE results
            ELSE results' = results

RECURSIVE Expected(_, _)
Expected(pk, i) == IF i > Len(pk) THEN <<>>
                   ELSE (IF Yields(Kind(pk[i])) THEN <<[pkt |-> i, kind |-> Kind(pk[i])]>> ELSE <<>>) \o Expected(pk, i + 1)
\* at every moment the yielded items are the classification of the packets emitted so far ...
ResultsFollowOut == results = Expected(out, 1)
\* ... and at the end, of the packets of the stream: independent of kind, read size, prefix, fragmentation, cut point
EndToEnd == pc = "done" => results = Expected(Packets, 1)
=============================================================================
