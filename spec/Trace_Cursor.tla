---------------------------- MODULE Trace_Cursor ----------------------------
(* Validate logged reads of the real RawPacketData against property C03 on arbitrary buffers and widths.    *)
(* One read per ndjson line: {b: bytes, p, n, op: "int"|"bytes", v: result (n bits MSB-first | bytes), q}   *)
EXTENDS Bits, Json, IOUtils, TLC
VARIABLES l
TLog == ndJsonDeserialize(IOEnv.TRACE_FILE)
Check(e) == LET want == IF e.op = "int" THEN SliceBits(e.b, e.p, e.n)
                                        ELSE BitsToBytes(PadLeft(SliceBits(e.b, e.p, e.n)))
            IN IF e.q # e.p + e.n THEN "cursor"
               ELSE IF Len(e.v) # Len(want) THEN "length"
               ELSE IF e.v # want THEN "value" ELSE "ok"
Init == l = 1
Next == /\ l <= Len(TLog) + 1
        /\ IF l <= Len(TLog)
           THEN LET c == Check(TLog[l]) IN (c # "ok") => PrintT(<<"REJECT", l, c>>)
           ELSE PrintT(<<"DONE", Len(TLog)>>)
        /\ l' = l + 1
=============================================================================
