----------------------------- MODULE MC_Framer -----------------------------
(* Exhaustive configuration of Framer: all small well-formed packet sequences, every cut of them,   *)
(* short garbage strings, three source kinds, several read sizes, every socket fragmentation.       *)
EXTENDS Framer

CONSTANTS DataLens,     \* set of data-field lengths used to build well-formed packets
          MaxPackets,   \* longest well-formed sequence
          Skips,        \* prefix lengths
          RSizes,       \* read sizes (0 = default)
          GarbageLen,   \* arbitrary strings over GarbageAlphabet up to this length
          GarbageAlphabet,
          WithCuts      \* TRUE: also every proper prefix of every well-formed stream (C10)

Kinds == {"bytes", "file", "sock"}

\* a packet: prefix bytes (value 7), header 1 2 3 4 <len-1 as two bytes>, data bytes 9
Pkt(dlen, sk) == [i \in 1 .. sk |-> 7] \o <<1, 2, 3, 4, (dlen - 1) \div 256, (dlen - 1) % 256>> \o [i \in 1 .. dlen |-> 9]

RECURSIVE Cat(_, _)
Cat(lens, sk) == IF lens = <<>> THEN <<>> ELSE Pkt(Head(lens), sk) \o Cat(Tail(lens), sk)

LenSeqs == UNION {[1 .. n -> DataLens] : n \in 0 .. MaxPackets}
WellFormed(sk) == {Cat(l, sk) : l \in LenSeqs}
Cuts(s) == IF WithCuts THEN {SubSeq(s, 1, k) : k \in 0 .. Len(s)} ELSE {s}
Garbage == UNION {[1 .. n -> GarbageAlphabet] : n \in 0 .. GarbageLen}
Streams(sk) == (UNION {Cuts(s) : s \in WellFormed(sk)}) \cup Garbage

AsFn(s) == [i \in 0 .. Len(s) - 1 |-> s[i + 1]]

MCInit == \E sk \in Skips : \E s \in Streams(sk) : \E k \in Kinds : \E r \in RSizes :
             InitWith(AsFn(s), Len(s), k, r, sk)

MCSpec == MCInit /\ [][Next]_vars /\ Fair
MCInitNext == MCInit /\ [][Next]_vars
=============================================================================
