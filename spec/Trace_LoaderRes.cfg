INIT TInit
NEXT TNext
INVARIANT TInv
CHECK_DEADLOCK FALSE
