SPECIFICATION MCSpec
CONSTANTS
  MaxW = 10
  Mode = "wide"
INVARIANT IntCanonical
CHECK_DEADLOCK FALSE
