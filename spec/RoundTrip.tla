------------------------------ MODULE RoundTrip ------------------------------
(***************************************************************************)
(* Write / load cycles of a definition (properties C15 and C09).             *)
(*                                                                         *)
(* Part 1 - ordering.  The definition keeps three name-keyed caches          *)
(* (parameter types, parameters, containers) whose insertion order is the    *)
(* order in which the writer emits the three sets.  Building from objects    *)
(* fills the caches by a pre-order traversal of the given container list;    *)
(* loading fills the container lookup dependency-first (base, then nested    *)
(* references in entry order, then the container itself) while walking the   *)
(* document, and then fills the caches by the same traversal over that       *)
(* lookup.  C15 needs: after one write/load cycle every further cycle        *)
(* reproduces the same orders (StableAfterOne).                              *)
(*                                                                         *)
(* Part 2 - attributes.  Write omits some attributes at some values; Load    *)
(* supplies defaults for absent attributes.  C09 needs Read(Write(v)) = v    *)
(* for every attribute and value (AttrPreserved).                            *)
(***************************************************************************)
EXTENDS Integers, Sequences, FiniteSets, TLC, Json, IOUtils, RoundTripAttrs

RCases == ndJsonDeserialize(IOEnv.TRACE_FILE)
\* case: [conts |-> <<[name, base, entries: <<<<"p"|"c", name>>>>]>>, ptype |-> [param |-> type], order0 |-> <<names>>, how |-> "obj"|"xml"]

VARIABLES cid, form, corder, porder, torder, cycle, hist
rvars == <<cid, form, corder, porder, torder, cycle, hist>>
Case == RCases[cid]
ContRec(nm) == LET S == {Case.conts[j] : j \in 1 .. Len(Case.conts)} IN CHOOSE c \in S : c.name = nm
InSeq(s, x) == \E j \in 1 .. Len(s) : s[j] = x
AddOnce(s, x) == IF InSeq(s, x) THEN s ELSE Append(s, x)

\* ---- container lookup of the loader: dependency-first insertion while walking the document order
RECURSIVE Insert(_, _, _), InsertNested(_, _, _, _)
InsertNested(lk, ents, k, fuel) ==
    IF k > Len(ents) THEN lk
    ELSE IF ents[k][1] = "c" THEN InsertNested(Insert(lk, ents[k][2], fuel), ents, k + 1, fuel)
    ELSE InsertNested(lk, ents, k + 1, fuel)
Insert(lk, nm, fuel) ==
    IF InSeq(lk, nm) \/ fuel = 0 THEN lk
    ELSE LET c == ContRec(nm)
             l1 == IF c.base # "" THEN Insert(lk, c.base, fuel - 1) ELSE lk
             l2 == InsertNested(l1, c.entries, 1, fuel - 1)
         IN AddOnce(l2, nm)
RECURSIVE LookupOrder(_, _, _)
LookupOrder(doc, k, lk) == IF k > Len(doc) THEN lk ELSE LookupOrder(doc, k + 1, Insert(lk, doc[k], 8))

\* ---- cache filling: pre-order traversal of a container list; returns <<corder, porder, torder>>
RECURSIVE Visit(_, _, _), VisitEntries(_, _, _, _)
VisitEntries(acc, ents, k, fuel) ==
    IF k > Len(ents) THEN acc
    ELSE IF ents[k][1] = "c" THEN VisitEntries(Visit(acc, ents[k][2], fuel), ents, k + 1, fuel)
    ELSE VisitEntries(<<acc[1], AddOnce(acc[2], ents[k][2]), AddOnce(acc[3], Case.ptype[ents[k][2]])>>, ents, k + 1, fuel)
Visit(acc, nm, fuel) ==
    IF fuel = 0 THEN acc
    ELSE VisitEntries(<<AddOnce(acc[1], nm), acc[2], acc[3]>>, ContRec(nm).entries, 1, fuel - 1)
RECURSIVE Caches(_, _, _)
Caches(lst, k, acc) == IF k > Len(lst) THEN acc ELSE Caches(lst, k + 1, Visit(acc, lst[k], 8))

LoadOrders(docorder) == Caches(LookupOrder(docorder, 1, <<>>), 1, <<<<>>, <<>>, <<>>>>)

RInit == \E c \in 1 .. Len(RCases) :
            /\ cid = c /\ cycle = 0 /\ hist = <<>>
            /\ form = "start" /\ corder = RCases[c].order0 /\ porder = <<>> /\ torder = <<>>

Build == /\ form = "start"
         /\ LET o == IF Case.how = "obj" THEN Caches(Case.order0, 1, <<<<>>, <<>>, <<>>>>) ELSE LoadOrders(Case.order0) IN
              /\ corder' = o[1] /\ porder' = o[2] /\ torder' = o[3]
              /\ hist' = Append(hist, o)
         /\ form' = "obj" /\ UNCHANGED <<cid, cycle>>
\* the writer emits the three sets in cache order and does not touch the definition
Write == /\ form = "obj" /\ cycle < 3
         /\ form' = "xml" /\ UNCHANGED <<cid, corder, porder, torder, cycle, hist>>
\* loading the written document
Load ==  /\ form = "xml"
         /\ LET o == LoadOrders(corder) IN
              /\ corder' = o[1] /\ porder' = o[2] /\ torder' = o[3]
              /\ hist' = Append(hist, o)
         /\ form' = "obj" /\ cycle' = cycle + 1 /\ UNCHANGED cid
RNext == Build \/ Write \/ Load
RDone == form = "obj" /\ cycle = 3

\* C15: once a document has been through one write/load cycle, every further cycle reproduces it
StableAfterOne == [][(form = "xml" /\ cycle >= 1) => (corder' = corder /\ porder' = porder /\ torder' = torder)]_rvars
WriteIsPure == [][(form = "obj" /\ form' = "xml") => (corder' = corder /\ porder' = porder /\ torder' = torder)]_rvars
\* every reachable name is in exactly one position
NoDuplicates == \A s \in {corder, porder, torder} : \A a, b \in 1 .. Len(s) : s[a] = s[b] => a = b

=============================================================================
