-------------------------------- MODULE StrBin --------------------------------
(***************************************************************************)
(* String and binary field decoding (StringDataEncoding / BinaryDataEncoding) *)
(* with fixed, looked-up or referenced (raw / calibrated, linearly adjusted)  *)
(* lengths.  Property C07.                                                   *)
(*                                                                         *)
(* The specification decides WHICH BYTES form the raw buffer and the text    *)
(* and where the cursor ends; applying the character codec to the text       *)
(* bytes is trusted base (the harness re-encodes the decoded text).          *)
(***************************************************************************)
EXTENDS Bits, Criteria

\* ---- computed length in bits: [k |-> "val", n] | [k |-> "undef"] | [k |-> "nomatch"] | [k |-> "neg"]
\* lenspec: [k |-> "fixed", n] | [k |-> "dyn", ref, cal, adj, slope, icpt] | [k |-> "lookup", entries]
IntegralNonNeg(r) == r[1] >= 0 /\ r[1] % r[2] = 0
BufLen(ls, env, forStr) ==
    CASE ls.k = "fixed" -> [k |-> "val", n |-> ls.n]
      [] ls.k = "dyn" ->
            IF ls.ref \notin DOMAIN env THEN [k |-> "undef"]
            ELSE LET v == Pick(env, ls.ref, ls.cal) IN
                 IF ~IsNum(v) THEN [k |-> "undef"]
                 ELSE LET x == RatOf(v)
                          y == IF ls.adj THEN <<ls.slope * x[1] + ls.icpt * x[2], x[2]>> ELSE x
                      IN IF IntegralNonNeg(y) THEN [k |-> "val", n |-> y[1] \div y[2]]
                         ELSE IF y[1] < 0 /\ (0 - y[1]) % y[2] = 0 THEN [k |-> "neg"] ELSE [k |-> "undef"]
      [] ls.k = "lookup" ->
            LET r == Lookup(ls.entries, env, [t |-> "none"])
            IN IF r.k = "val" THEN [k |-> "val", n |-> r.n]
               ELSE IF r.k = "none" THEN [k |-> "nomatch"] ELSE [k |-> "undef"]

\* ---- binary: the field bits left-padded to whole bytes
BinDecode(pkt, pos, n) ==
    IF pos + n > 8 * Len(pkt) THEN [k |-> "err", kind |-> "eop"]
    ELSE [k |-> "val", text |-> <<>>, raw |-> BitsToBytes(PadLeft(SliceBits(pkt, pos, n))), adv |-> n]

\* ---- string
\* first index i (0-based, multiple of the code-unit size u) where tc occurs in raw; -1 if none
TermIndex(raw, tc, u) ==
    LET cand == {i \in 0 .. Len(raw) - Len(tc) : i % u = 0 /\ \A j \in 1 .. Len(tc) : raw[i + j] = tc[j]}
    IN IF cand = {} THEN 0 - 1 ELSE CHOOSE i \in cand : \A h \in cand : i <= h
\* is there an occurrence of tc at a byte offset that is NOT aligned to the code unit, before the aligned one?
MisalignedFirst(raw, tc, u) ==
    \E i \in 0 .. Len(raw) - Len(tc) : /\ i % u # 0 /\ (\A j \in 1 .. Len(tc) : raw[i + j] = tc[j])
                                        /\ (TermIndex(raw, tc, u) = 0 - 1 \/ i < TermIndex(raw, tc, u))

StrDecode(pkt, pos, n, delim) ==
    IF pos + n > 8 * Len(pkt) THEN [k |-> "undef"]          \* over-read: property C14, not claimed here
    ELSE LET fbits == SliceBits(pkt, pos, n)
             raw == BitsToBytes(PadRight(fbits))
         IN CASE delim.k = "whole" -> [k |-> "val", text |-> raw, raw |-> raw, adv |-> n]
              [] delim.k = "term" ->
                    LET i == TermIndex(raw, delim.tc, delim.unit)
                    IN IF i < 0 THEN [k |-> "err", kind |-> "str"]
                       ELSE [k |-> "val", text |-> SubSeq(raw, 1, i), raw |-> raw, adv |-> n]
              [] delim.k = "lead" ->
                    IF delim.tag > 8 * Len(raw) \/ delim.tag > 30 THEN [k |-> "undef"]
                    ELSE LET rb == AllBits(raw)
                             m == BitsToInt(SubSeq(rb, 1, delim.tag))
                         IN IF m % 8 # 0 \/ delim.tag + m > 8 * Len(raw) THEN [k |-> "err", kind |-> "str"]
                            ELSE [k |-> "val", text |-> BitsToBytes(SubSeq(rb, delim.tag + 1, delim.tag + m)),
                                  raw |-> raw, adv |-> n]

\* enc: [k |-> "bin"|"str", len |-> lenspec, delim]
SBDecode(enc, env, pkt, pos) ==
    LET L == BufLen(enc.len, env, enc.k = "str") IN
    IF L.k \in {"undef", "neg"} THEN [k |-> "undef"]       \* negative lengths: property C14 (Decode.tla)
    ELSE IF L.k = "nomatch" THEN [k |-> "err", kind |-> "len"]
    ELSE IF enc.k = "bin" THEN BinDecode(pkt, pos, L.n)
    ELSE IF L.n = 0 THEN [k |-> "undef"]                     \* zero-length strings: outside the claimed domain
    ELSE StrDecode(pkt, pos, L.n, enc.delim)
=============================================================================
