INIT TInit
NEXT TNext
CONSTANTS
  Docs = {1, 2, 3, 4, 5, 6, 7, 8, 9, 10, 11, 12}
  MaxLoads = 1000
INVARIANT TInv
CHECK_DEADLOCK FALSE
