--------------------------- MODULE Trace_LoaderRes ---------------------------
(* Run the loader model on every document of the input file and compare the end with the real from_xtce:            *)
(*   obs = {outcome: "accepted"|"rejected", inheritors: [[name, [names]]], identity: bool, entries: [[name, [[k,n]]]]} *)
EXTENDS LoaderRes
VARIABLES st
TInit == \E c \in 1 .. Len(DCases) : InitDoc(c) /\ st = "run"
Obs == DCases[cid].obs
AsSet(s) == {s[j] : j \in 1 .. Len(s)}
ModelInh == {<<p[1], p[2]>> : p \in inh}
ObsInh == {<<Obs.inheritors[j][1], AsSet(Obs.inheritors[j][2])>> : j \in 1 .. Len(Obs.inheritors)}
ObsInhNoDup == \A j \in 1 .. Len(Obs.inheritors) : Cardinality(AsSet(Obs.inheritors[j][2])) = Len(Obs.inheritors[j][2])
ModelEntries == {<<nm, [k \in 1 .. Len(heap[Get(lookup, nm)].ents) |->
                          LET x == heap[Get(lookup, nm)].ents[k] IN IF x[1] = "p" THEN <<"p", x[2]>> ELSE <<"c", heap[x[2]].name>>]>> : nm \in Dom(lookup)}
ObsEntries == {<<Obs.entries[j][1], Obs.entries[j][2]>> : j \in 1 .. Len(Obs.entries)}
Clause == IF pc = "rejected" THEN (IF Obs.outcome = "rejected" THEN "ok" ELSE "broken-document-accepted")
          ELSE IF Obs.outcome # "accepted" THEN "well-formed-document-rejected"
          ELSE IF ~Obs.identity THEN "references-do-not-share-identity"
          ELSE IF ObsInh # ModelInh \/ ~ObsInhNoDup THEN "inheritor-lists"
          ELSE IF ObsEntries # ModelEntries THEN "entry-lists"
          ELSE "ok"
Step == st = "run" /\ ~Done /\ LNext /\ UNCHANGED st
Verdict == /\ st = "run" /\ Done /\ st' = "done"
           /\ PrintT(<<IF Clause = "ok" THEN "ACCEPT" ELSE "REJECT", cid, Clause, pc, why>>)
           /\ UNCHANGED lvars
TNext == Step \/ Verdict
TInv == ReferencesShareIdentity /\ InheritorsExact /\ BrokenRejected
=============================================================================
