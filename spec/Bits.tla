-------------------------------- MODULE Bits --------------------------------
(* Pure operators on byte and bit sequences.  Bit 0 is the most significant bit of the first byte.        *)
(* Only function constructors and bounded quantifiers over long sequences (recursion is used only over     *)
(* sequences of at most ~30 elements), so the operators stay usable on kilobyte buffers.                  *)
EXTENDS Integers, Sequences

Pow2(n) == 2 ^ n

\* bit i (0-based, MSB first) of byte sequence bs
BitAt(bs, i) == (bs[(i \div 8) + 1] \div Pow2(7 - (i % 8))) % 2

\* the n bits starting at 0-based position p, as a sequence over {0,1}
SliceBits(bs, p, n) == [k \in 1 .. n |-> BitAt(bs, p + k - 1)]

AllBits(bs) == SliceBits(bs, 0, 8 * Len(bs))

\* value of a short bit sequence (at most 30 bits) as a number
RECURSIVE BitsToInt(_)
BitsToInt(b) == IF Len(b) = 0 THEN 0 ELSE 2 * BitsToInt(SubSeq(b, 1, Len(b) - 1)) + b[Len(b)]

\* big-endian value of a short byte sequence (at most 3 bytes + headroom)
RECURSIVE BytesToInt(_)
BytesToInt(bs) == IF Len(bs) = 0 THEN 0 ELSE 256 * BytesToInt(SubSeq(bs, 1, Len(bs) - 1)) + bs[Len(bs)]

\* bits left-padded with zeros to whole bytes, as bytes (what read_as_bytes returns for an unaligned read)
PadLeft(bits) == LET n == Len(bits)
                     nb == (n + 7) \div 8
                     pad == 8 * nb - n
                 IN [i \in 1 .. 8 * nb |-> IF i <= pad THEN 0 ELSE bits[i - pad]]
\* bits right-padded with zeros to whole bytes (raw string buffers)
PadRight(bits) == LET n == Len(bits)
                      nb == (n + 7) \div 8
                  IN [i \in 1 .. 8 * nb |-> IF i <= n THEN bits[i] ELSE 0]
ByteOf(bits, j) == 128 * bits[8*j-7] + 64 * bits[8*j-6] + 32 * bits[8*j-5] + 16 * bits[8*j-4]
                   + 8 * bits[8*j-3] + 4 * bits[8*j-2] + 2 * bits[8*j-1] + bits[8*j]
\* a bit sequence whose length is a multiple of 8, as bytes
BitsToBytes(bits) == [j \in 1 .. (Len(bits) \div 8) |-> ByteOf(bits, j)]

\* reverse the order of the bytes of a whole-byte bit sequence
ReverseBytes(bits) == LET nb == Len(bits) \div 8
                      IN [i \in 1 .. Len(bits) |-> bits[8 * (nb - 1 - ((i - 1) \div 8)) + ((i - 1) % 8) + 1]]
=============================================================================
