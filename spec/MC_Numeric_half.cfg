SPECIFICATION MCSpec
CONSTANTS
  MaxW = 10
  Mode = "half"
INVARIANT IntAgrees
INVARIANT IntCanonical
INVARIANT HalfClasses
INVARIANT HalfValue
CHECK_DEADLOCK FALSE
