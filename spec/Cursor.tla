------------------------------- MODULE Cursor -------------------------------
(***************************************************************************)
(* RawPacketData.read_as_int / read_as_bytes and the helper _extract_bits.  *)
(*                                                                         *)
(* A state is one read in progress: the buffer, the cursor, the operation   *)
(* and width, and (after the step) the result.  The two code paths of each  *)
(* read (byte-aligned fast path, shift-and-mask path) are separate actions  *)
(* so that coverage shows both are exercised.  The operational definitions  *)
(* mirror the code's arithmetic (byte window, big-endian value, shift,      *)
(* mask); the declarative ones state property C03 on the bit sequence.      *)
(* Values are numbers here (widths <= 24 in the exhaustive configuration);  *)
(* Trace_Cursor validates arbitrary widths on bit sequences.                *)
(***************************************************************************)
EXTENDS Bits, TLC

VARIABLES buf, pos, op, width, res, pos0, pc
vars == <<buf, pos, op, width, res, pos0, pc>>

\* ---- operational: _extract_bits(data, start_bit, nbits)
Window(bs, p, n) == LET sb == p \div 8
                        eb == sb + ((p % 8) + n + 7) \div 8
                    IN SubSeq(bs, sb + 1, eb)
ExtractFast(bs, p, n) == BytesToInt(Window(bs, p, n))
ExtractShift(bs, p, n) == LET w == Window(bs, p, n)
                              v == BytesToInt(w)
                              sh == Len(w) * 8 - (p % 8) - n
                          IN (v \div Pow2(sh)) % Pow2(n)
IntToBytes(v, nb) == [j \in 1 .. nb |-> (v \div Pow2(8 * (nb - j))) % 256]

\* ---- declarative (property C03)
DeclInt(bs, p, n) == BitsToInt(SliceBits(bs, p, n))
DeclBytes(bs, p, n) == BitsToBytes(PadLeft(SliceBits(bs, p, n)))

InBounds(bs, p, n) == n >= 0 /\ p + n <= 8 * Len(bs)

InitWith(b, p, o, n) == /\ buf = b /\ pos = p /\ pos0 = p /\ op = o /\ width = n
                        /\ res = <<>> /\ pc = "call"

ReadIntFast ==   /\ pc = "call" /\ op = "int" /\ pos % 8 = 0 /\ width % 8 = 0
                 /\ res' = <<ExtractFast(buf, pos, width)>>
                 /\ pos' = pos + width /\ pc' = "done" /\ UNCHANGED <<buf, op, width, pos0>>
ReadIntShift ==  /\ pc = "call" /\ op = "int" /\ ~(pos % 8 = 0 /\ width % 8 = 0)
                 /\ res' = <<ExtractShift(buf, pos, width)>>
                 /\ pos' = pos + width /\ pc' = "done" /\ UNCHANGED <<buf, op, width, pos0>>
ReadBytesFast == /\ pc = "call" /\ op = "bytes" /\ pos % 8 = 0 /\ width % 8 = 0
                 /\ res' = SubSeq(buf, pos \div 8 + 1, pos \div 8 + (width + 7) \div 8)
                 /\ pos' = pos + width /\ pc' = "done" /\ UNCHANGED <<buf, op, width, pos0>>
ReadBytesShift == /\ pc = "call" /\ op = "bytes" /\ ~(pos % 8 = 0 /\ width % 8 = 0)
                 /\ res' = IntToBytes(ExtractShift(buf, pos, width), (width + 7) \div 8)
                 /\ pos' = pos + width /\ pc' = "done" /\ UNCHANGED <<buf, op, width, pos0>>

Next == ReadIntFast \/ ReadIntShift \/ ReadBytesFast \/ ReadBytesShift

\* C03
ResultIsSlice == pc = "done" =>
                   IF op = "int" THEN res = <<DeclInt(buf, pos0, width)>>
                                 ELSE res = DeclBytes(buf, pos0, width)
CursorAdvances == pc = "done" => pos = pos0 + width
BufferUnchanged == [][buf' = buf]_vars
=============================================================================
