SPECIFICATION MCSpec
CONSTANTS
  Mode = "pairs"
INVARIANT RoundTrip
INVARIANT PackUnpack
INVARIANT BytesInRange
INVARIANT NothingBuiltWhenInvalid
CHECK_DEADLOCK FALSE
