------------------------------- MODULE Framer -------------------------------
(***************************************************************************)
(* The CCSDS stream framer: space_packet_parser.packets.ccsds_generator.   *)
(*                                                                         *)
(* One action per branch of the generator's loop body, in program order:   *)
(*   Top / TopStop        stop test `total and parsed == total`            *)
(*   Trim / NoTrim        buffer trimming once cur > TrimAt                *)
(*   HdrReady / HdrRead / HdrGiveUp      first refill loop (one read each) *)
(*   Hdr                  skip the prefix, read the length field           *)
(*   BodyReady / BodyRead / BodyGiveUp   second refill loop                *)
(*   Emit                 account, slice, advance, yield                   *)
(*                                                                         *)
(* The byte CONTENT of the buffer is not a variable: the buffer is always  *)
(* the window  stream[base .. srcpos-1]  of the source, so the state is    *)
(* integers only and the same module validates traces of 20+ MB streams.   *)
(* `stream` is a function from absolute offsets to bytes; in trace mode it *)
(* is sparse (only the offsets of the length fields are supplied).         *)
(*                                                                         *)
(* The model is the DEMANDED behaviour (properties C02, C10).  What the    *)
(* pinned code did instead on exhausted sources is kept as the AsIs_*      *)
(* actions, enabled only when the constant AsIs is TRUE (MC_FramerAsIs).   *)
(***************************************************************************)
EXTENDS Integers, Sequences, FiniteSets, TLC

CONSTANTS TrimAt,       \* trim the buffer when cur > TrimAt     (code: 20_000_000)
          DefaultSock,  \* default recv size for sockets          (code: 4096)
          AsIs,         \* TRUE: enable the pinned tree's behaviour on exhausted sources
          Eager         \* TRUE: the refill policy is free (the implementation may read ahead at any point);
                        \* FALSE: reads happen exactly where ccsds_generator issues them today.
                        \* The properties do not depend on the policy (both are model-checked), so trace
                        \* validation runs with Eager = TRUE and never rejects a read for its timing.

VARIABLES stream, total, kind, rsize, skip,      \* configuration (never change)
          srcpos,   \* bytes the source has handed over so far
          base,     \* absolute offset of read_buffer[0]  (changed by Trim only)
          cur,      \* current_pos, relative to base
          parsed,   \* n_bytes_parsed
          need,     \* n_bytes_packet of the packet being assembled, 0 = none
          out,      \* emitted packets as absolute slices [start, n]
          pc

cfgvars == <<stream, total, kind, rsize, skip>>
vars == <<stream, total, kind, rsize, skip, srcpos, base, cur, parsed, need, out, pc>>

HDR == 6
Min(a, b) == IF a < b THEN a ELSE b
Buffered == srcpos - base - cur                 \* len(read_buffer) - current_pos
Remaining == total - srcpos
HaveLen(off) == {off + 4, off + 5} \subseteq DOMAIN stream
LenField(off) == stream[off + 4] * 256 + stream[off + 5]

\* what one read()/recv() call may return (as a number of bytes); {} = there is no reader (bytes source)
Ask == IF rsize = 0 THEN (IF kind = "sock" THEN DefaultSock ELSE -1) ELSE rsize
Gots == CASE kind = "bytes" -> {}
          [] kind = "file"  -> IF Remaining = 0 THEN {0}
                               ELSE {IF Ask = -1 THEN Remaining ELSE Min(Ask, Remaining)}
          [] kind = "sock"  -> IF Remaining = 0 THEN {0} ELSE 1 .. Min(Ask, Remaining)

InitWith(s, tot, k, r, sk) ==
    /\ stream = s /\ total = tot /\ kind = k /\ rsize = r /\ skip = sk
    /\ srcpos = IF k = "bytes" THEN tot ELSE 0
    /\ base = 0 /\ cur = 0 /\ parsed = 0 /\ need = 0 /\ out = <<>> /\ pc = "top"

-----------------------------------------------------------------------------
TopStop == /\ pc = "top"
           /\ kind # "sock" /\ total # 0 /\ parsed = total
           /\ pc' = "done"
           /\ UNCHANGED <<cfgvars, srcpos, base, cur, parsed, need, out>>

Top ==     /\ pc = "top"
           /\ ~(kind # "sock" /\ total # 0 /\ parsed = total)
           /\ pc' = "trim"
           /\ UNCHANGED <<cfgvars, srcpos, base, cur, parsed, need, out>>

Trim ==    /\ pc = "trim" /\ cur > TrimAt
           /\ base' = base + cur /\ cur' = 0
           /\ pc' = "fillhdr"
           /\ UNCHANGED <<cfgvars, srcpos, parsed, need, out>>

NoTrim ==  /\ pc = "trim" /\ ~(cur > TrimAt)
           /\ pc' = "fillhdr"
           /\ UNCHANGED <<cfgvars, srcpos, base, cur, parsed, need, out>>

HdrReady == /\ pc = "fillhdr" /\ Buffered >= skip + HDR
            /\ pc' = "hdr"
            /\ UNCHANGED <<cfgvars, srcpos, base, cur, parsed, need, out>>

HdrRead(g) == /\ pc = "fillhdr" /\ Buffered < skip + HDR
              /\ g \in Gots /\ g > 0
              /\ srcpos' = srcpos + g
              /\ UNCHANGED <<cfgvars, base, cur, parsed, need, out, pc>>

\* the source is exhausted (or there is no reader) and no complete header is buffered: stop.
HdrGiveUp == /\ ~AsIs
             /\ pc = "fillhdr" /\ Buffered < skip + HDR
             /\ (Gots = {} \/ 0 \in Gots)
             /\ pc' = "done"
             /\ UNCHANGED <<cfgvars, srcpos, base, cur, parsed, need, out>>

Hdr ==     /\ pc = "hdr"
           /\ HaveLen(base + cur + skip)
           /\ cur' = cur + skip
           /\ need' = HDR + LenField(base + cur + skip) + 1
           /\ pc' = "fillbody"
           /\ UNCHANGED <<cfgvars, srcpos, base, parsed, out>>

BodyReady == /\ pc = "fillbody" /\ Buffered >= need
             /\ pc' = "emit"
             /\ UNCHANGED <<cfgvars, srcpos, base, cur, parsed, need, out>>

BodyRead(g) == /\ pc = "fillbody" /\ Buffered < need
               /\ g \in Gots /\ g > 0
               /\ srcpos' = srcpos + g
               /\ UNCHANGED <<cfgvars, base, cur, parsed, need, out, pc>>

BodyGiveUp == /\ ~AsIs
              /\ pc = "fillbody" /\ Buffered < need
              /\ (Gots = {} \/ 0 \in Gots)
              /\ pc' = "done"
              /\ UNCHANGED <<cfgvars, srcpos, base, cur, parsed, need, out>>

Emit ==    /\ pc = "emit"
           /\ out' = Append(out, [start |-> base + cur, n |-> Min(need, Buffered)])
           /\ parsed' = parsed + skip + need
           /\ cur' = cur + need
           /\ need' = 0
           /\ pc' = "top"
           /\ UNCHANGED <<cfgvars, srcpos, base>>

-----------------------------------------------------------------------------
(* The pinned tree (before the fix): an exhausted source does not stop the loop. *)
AsIs_CrashOnBytes == /\ AsIs /\ kind = "bytes"
                     /\ \/ (pc = "fillhdr" /\ Buffered < skip + HDR)
                        \/ (pc = "fillbody" /\ Buffered < need)
                     /\ pc' = "crash"      \* TypeError: 'NoneType' object is not callable
                     /\ UNCHANGED <<cfgvars, srcpos, base, cur, parsed, need, out>>

\* length field read from however many header bytes are present
AsIsLen(off) == LET avail == srcpos - off
                IN IF avail >= 6 THEN LenField(off) ELSE IF avail = 5 THEN stream[off + 4] ELSE 0

AsIs_HdrShort == /\ AsIs /\ kind # "bytes"
                 /\ pc = "fillhdr" /\ Buffered < skip + HDR /\ 0 \in Gots
                 /\ cur' = cur + skip
                 /\ need' = HDR + AsIsLen(base + cur + skip) + 1
                 /\ pc' = "fillbody"
                 /\ UNCHANGED <<cfgvars, srcpos, base, parsed, out>>

AsIs_EmitShort == /\ AsIs /\ kind # "bytes"
                  /\ pc = "fillbody" /\ Buffered < need /\ 0 \in Gots
                  /\ out' = Append(out, [start |-> base + cur,
                                         n |-> IF Buffered > 0 THEN Buffered ELSE 0])
                  /\ parsed' = parsed + skip + need
                  /\ cur' = cur + need
                  /\ need' = 0
                  /\ pc' = "top"
                  /\ UNCHANGED <<cfgvars, srcpos, base>>

\* any read, at any point before the end: g bytes arrive from the source
ReadBy(g) == /\ pc \notin {"done", "crash"}
             /\ g \in 1 .. Remaining
             /\ srcpos' = srcpos + g
             /\ UNCHANGED <<cfgvars, base, cur, parsed, need, out, pc>>
ReadAhead == Eager /\ kind # "bytes" /\ \E g \in Gots \ {0} : ReadBy(g)

HdrReadAny == \E g \in Gots : HdrRead(g)
BodyReadAny == \E g \in Gots : BodyRead(g)

AsIsNext == AsIs_CrashOnBytes \/ AsIs_HdrShort \/ AsIs_EmitShort

Next == \/ TopStop \/ Top \/ Trim \/ NoTrim
        \/ HdrReady \/ HdrReadAny \/ HdrGiveUp \/ Hdr
        \/ BodyReady \/ BodyReadAny \/ BodyGiveUp \/ Emit
        \/ AsIsNext \/ ReadAhead

Fair == WF_vars(Next)

-----------------------------------------------------------------------------
(* Declarative reference: the packet sequence of a byte stream. *)
RECURSIVE PkFrom(_)
PkFrom(off) ==
    IF off + skip + HDR <= total
    THEN LET st == off + skip
             n  == HDR + LenField(st) + 1
         IN IF st + n <= total THEN <<[start |-> st, n |-> n]>> \o PkFrom(st + n) ELSE <<>>
    ELSE <<>>
Packets == PkFrom(0)

RECURSIVE SumOut(_)
SumOut(o) == IF o = <<>> THEN 0 ELSE skip + Head(o).n + SumOut(Tail(o))

TypeOK == /\ pc \in {"top", "trim", "fillhdr", "hdr", "fillbody", "emit", "done", "crash"}
          /\ srcpos \in 0 .. total /\ base >= 0 /\ cur >= 0 /\ parsed >= 0 /\ need >= 0

\* C02: what has been emitted is, at every moment, a prefix of the input's packet sequence
OutIsPrefix == /\ Len(out) <= Len(Packets)
               /\ \A i \in 1 .. Len(out) : out[i] = Packets[i]
\* C10: only complete packets, each as long as its own length field says, consecutive slices
OnlyComplete == \A i \in 1 .. Len(out) :
                   /\ HaveLen(out[i].start)
                   /\ out[i].n = HDR + LenField(out[i].start) + 1
                   /\ out[i].start + out[i].n <= srcpos
                   /\ out[i].start = (IF i = 1 THEN 0 ELSE out[i-1].start + out[i-1].n) + skip
\* byte accounting that ends iteration for sized sources
AccountingExact == /\ parsed = SumOut(out)
                   /\ pc = "top" => parsed = base + cur
\* the cursor never runs ahead of the buffered window
WindowOK == pc \in {"top", "trim", "fillhdr", "hdr", "done"} => base + cur <= srcpos
\* C02/C10 at the end: exactly the packets; hence nothing after the last packet and a short remainder
DoneExact == pc = "done" => out = Packets
NoCrash == pc # "crash"
Terminates == <>(pc = "done")
ConfigFixed == [][UNCHANGED cfgvars]_vars
=============================================================================
