------------------------------ MODULE LoaderNs ------------------------------
(***************************************************************************)
(* XtcePacketDefinition.from_xtce and the process-wide namespace state of    *)
(* NamespaceAwareElement (class-level prefix and namespace map, consulted by *)
(* every element lookup).  Property C16: the definition obtained from a      *)
(* document depends neither on its lexical spelling nor on earlier loads.    *)
(*                                                                         *)
(* One action per step of from_xtce: parse the XML (a malformed document     *)
(* fails here, before the state is touched), set the prefix, set the map,    *)
(* run the lookups (each reads the GLOBAL state), finish.  A request is      *)
(* [doc, style, prefix, xsi, fault].                                         *)
(***************************************************************************)
EXTENDS Integers, Sequences, FiniteSets, TLC

CONSTANTS Docs, MaxLoads
URI == "xtce-uri"
XSI == "xsi-uri"
NONE == "<none>"
Styles == {"prefix", "default", "none"}
Prefixes == {"xtce", "foo"}
Faults == {"none", "malformed", "unsupported", "badprefix", "latefail", "noprefix"}
\* latefail: an error in the container pass, after element lookups by name; noprefix: the caller passes no prefix (a fault only for a
\* document whose XTCE elements carry one: its lookups find nothing; the other conventions are loaded that way anyway)
Requests == [doc : Docs, style : Styles, prefix : Prefixes, xsi : BOOLEAN, fault : Faults]

VARIABLES gp, gm, phase, cur, last, n
vars == <<gp, gm, phase, cur, last, n>>

\* what the caller passes as xtce_ns_prefix, and the root element's namespace map
PrefixArg(r) == IF r.fault = "badprefix" THEN "bogus" ELSE IF r.fault = "noprefix" THEN NONE ELSE IF r.style = "prefix" THEN r.prefix ELSE NONE
Faulty(r) == r.fault # "none" /\ ~(r.fault = "noprefix" /\ r.style # "prefix")
NsmapOf(r) == (CASE r.style = "prefix" -> {<<r.prefix, URI>>} [] r.style = "default" -> {<<NONE, URI>>} [] r.style = "none" -> {})
              \cup (IF r.xsi THEN {<<"xsi", XSI>>} ELSE {})
Dom(m) == {p[1] : p \in m}
Get(m, k) == (CHOOSE p \in m : p[1] = k)[2]
\* namespace of the document's XTCE elements
ElemNs(r) == IF r.style = "none" THEN NONE ELSE URI

\* an element lookup with the GLOBAL state: "error" (prefix not in the map), "found", "notfound"
Lookup(r) == IF gp # NONE
             THEN (IF gp \notin Dom(gm) THEN "error" ELSE IF Get(gm, gp) = ElemNs(r) THEN "found" ELSE "notfound")
             ELSE (IF NONE \in Dom(gm) THEN (IF Get(gm, NONE) = ElemNs(r) THEN "found" ELSE "notfound")
                   ELSE IF ElemNs(r) = NONE THEN "found" ELSE "notfound")

Init == gp = NONE /\ gm = {} /\ phase = "idle" /\ cur = [doc |-> CHOOSE d \in Docs : TRUE, style |-> "none", prefix |-> "xtce", xsi |-> FALSE, fault |-> "none"]
        /\ last = [k |-> "none", doc |-> CHOOSE d \in Docs : TRUE] /\ n = 0

Start(r) == /\ phase = "idle" /\ n < MaxLoads
            /\ cur' = r /\ n' = n + 1
            /\ phase' = "parse" /\ UNCHANGED <<gp, gm, last>>
ParseFail == /\ phase = "parse" /\ cur.fault = "malformed"
             /\ last' = [k |-> "failed", doc |-> cur.doc] /\ phase' = "idle" /\ UNCHANGED <<gp, gm, cur, n>>
ParseOk == /\ phase = "parse" /\ cur.fault # "malformed"
           /\ phase' = "setprefix" /\ UNCHANGED <<gp, gm, cur, last, n>>
SetPrefix == /\ phase = "setprefix" /\ gp' = PrefixArg(cur) /\ phase' = "setnsmap" /\ UNCHANGED <<gm, cur, last, n>>
SetNsmap == /\ phase = "setnsmap" /\ gm' = NsmapOf(cur) /\ phase' = "lookups" /\ UNCHANGED <<gp, cur, last, n>>
\* all element lookups of the three passes happen here; an unsupported element raises after the state was set
LookupsFail == /\ phase = "lookups" /\ (Lookup(cur) # "found" \/ cur.fault \in {"unsupported", "latefail"})
               /\ last' = [k |-> "failed", doc |-> cur.doc] /\ phase' = "idle" /\ UNCHANGED <<gp, gm, cur, n>>
LookupsOk == /\ phase = "lookups" /\ Lookup(cur) = "found" /\ cur.fault \notin {"unsupported", "latefail"}
             /\ last' = [k |-> "loaded", doc |-> cur.doc] /\ phase' = "idle" /\ UNCHANGED <<gp, gm, cur, n>>

StartAny == \E r \in Requests : Start(r)
Next == StartAny \/ ParseFail \/ ParseOk \/ SetPrefix \/ SetNsmap \/ LookupsFail \/ LookupsOk
Spec == Init /\ [][Next]_vars

\* C16: when the lookups run, the global state is the one derived from the document being loaded ...
LookupSeesOwnDoc == phase = "lookups" => (gp = PrefixArg(cur) /\ gm = NsmapOf(cur))
\* ... hence a well-formed request always loads, whatever happened before, and yields its own document
HistoryIndependent == [][(phase = "lookups" /\ ~Faulty(cur)) => (phase' = "idle" /\ last' = [k |-> "loaded", doc |-> cur.doc])]_vars
FaultsFail == [][(phase \in {"parse", "lookups"} /\ Faulty(cur) /\ phase' = "idle") => last'.k = "failed"]_vars
=============================================================================
