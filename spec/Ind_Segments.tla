--------------------------- MODULE Ind_Segments ---------------------------
(***************************************************************************)
(* Apalache: the safety invariants of Segments.tla are INDUCTIVE, i.e.     *)
(* they hold after histories of any length (TLC explores histories up to   *)
(* MaxLen only).  Checked in two runs:                                      *)
(*   apalache-mc check --init=Init    --inv=IndInv        --length=0 Ind_Segments.tla   *)
(*   apalache-mc check --init=IndInit --inv=IndInvAndStep --length=1 Ind_Segments.tla   *)
(* IndInit picks an ARBITRARY state (sequences of up to 4 collected         *)
(* segments per APID, up to 6 used ids, any step counter) satisfying        *)
(* IndInv; one Step from it must satisfy IndInv again and the action        *)
(* properties NoReuse / OnlyWhenComplete / PerApidIndependent.              *)
(* The actions are those of Segments.tla, restated with type annotations    *)
(* (Apalache needs them on the declarations).  Refine_Segments.tla lets TLC  *)
(* check that every step of this module is a step of Segments.tla (the      *)
(* converse holds by construction: the same six disjuncts, plus             *)
(* deterministic copies of the previous `used` and `open`).                 *)
(***************************************************************************)
EXTENDS Integers, Sequences, FiniteSets, Apalache

\* @typeAlias: pkt = {id: Int, apid: Int, flag: Str, seq: Int};
Apids == {1, 2}
M == 16384
SeqRange == 0 .. (M - 1)        \* every 14-bit sequence count (TLC's refinement run below substitutes four values around the wrap)

VARIABLES
    \* @type: Int -> Seq($pkt);
    open,
    \* @type: Set(Int);
    used,
    \* @type: Seq($pkt);
    last,
    \* @type: Str;
    warn,
    \* @type: Int;
    n,
    \* history-free copies of the previous state, for the action properties
    \* @type: Set(Int);
    usedBefore,
    \* @type: Int -> Seq($pkt);
    openBefore

\* @type: Seq($pkt) => Set(Int);
Ids(g) == {g[i].id : i \in DOMAIN g}
\* @type: Seq($pkt) => Bool;
Consecutive(g) == \A i \in DOMAIN g : i + 1 \in DOMAIN g => ((g[i + 1].seq - g[i].seq) + M) % M = 1

Init == /\ open = [a \in Apids |-> <<>>] /\ used = {} /\ last = <<>> /\ warn = "none" /\ n = 0
        /\ usedBefore = {} /\ openBefore = [a \in Apids |-> <<>>]

\* @type: ($pkt) => Bool;
Unseg(p) ==       /\ p.flag = "U"
                  /\ last' = <<p>> /\ used' = used \union {p.id} /\ warn' = "none"
                  /\ UNCHANGED open
\* @type: ($pkt) => Bool;
First(p) ==       /\ p.flag = "F"
                  /\ open' = [open EXCEPT ![p.apid] = <<p>>]
                  /\ last' = <<>> /\ warn' = "none" /\ UNCHANGED used
\* @type: ($pkt) => Bool;
DropNoStart(p) == /\ p.flag \in {"C", "L"} /\ open[p.apid] = <<>>
                  /\ last' = <<>> /\ warn' = "nostart" /\ UNCHANGED <<open, used>>
\* @type: ($pkt) => Bool;
Append_(p) ==     /\ p.flag = "C" /\ open[p.apid] /= <<>>
                  /\ open' = [open EXCEPT ![p.apid] = Append(open[p.apid], p)]
                  /\ last' = <<>> /\ warn' = "none" /\ UNCHANGED used
\* @type: ($pkt) => Bool;
CloseOk(p) ==     /\ p.flag = "L" /\ open[p.apid] /= <<>>
                  /\ LET g == Append(open[p.apid], p) IN
                       /\ Consecutive(g)
                       /\ last' = g /\ used' = used \union Ids(g) /\ warn' = "none"
                       /\ open' = [open EXCEPT ![p.apid] = <<>>]
\* @type: ($pkt) => Bool;
CloseGap(p) ==    /\ p.flag = "L" /\ open[p.apid] /= <<>>
                  /\ LET g == Append(open[p.apid], p) IN
                       /\ ~Consecutive(g)
                       /\ last' = <<>> /\ warn' = "gap" /\ UNCHANGED used
                       /\ open' = [open EXCEPT ![p.apid] = <<>>]

Next == \E a \in Apids, s \in SeqRange, f \in {"C", "F", "L", "U"} :
          LET p == [id |-> n + 1, apid |-> a, flag |-> f, seq |-> s] IN
            /\ n' = n + 1 /\ usedBefore' = used /\ openBefore' = open
            /\ (Unseg(p) \/ First(p) \/ DropNoStart(p) \/ Append_(p) \/ CloseOk(p) \/ CloseGap(p))

-----------------------------------------------------------------------------
OpenIds == UNION {Ids(open[a]) : a \in Apids}

TypeOK == /\ warn \in {"none", "gap", "nostart"} /\ n >= 0
          /\ DOMAIN open = Apids /\ DOMAIN openBefore = Apids
          /\ \A a \in Apids : \A i \in DOMAIN open[a] : open[a][i].apid = a /\ open[a][i].flag \in {"C", "F", "L", "U"}
          /\ \A i \in DOMAIN last : last[i].flag \in {"C", "F", "L", "U"}
\* every id seen so far is at most n: the next packet's id is fresh
Fresh == /\ \A i \in used : i >= 1 /\ i <= n
         /\ \A a \in Apids : \A i \in DOMAIN open[a] : open[a][i].id >= 1 /\ open[a][i].id <= n
         /\ \A i \in DOMAIN last : last[i].id >= 1 /\ last[i].id <= n
OpenUnused == OpenIds \intersect used = {}
\* strengthening found by the inductive step: a raw packet is collected under one APID only (else delivering one group would
\* "use" an id that another open group still holds)
OpenDisjoint == \A a \in Apids : \A b \in Apids \ {a} : Ids(open[a]) \intersect Ids(open[b]) = {}
OpenShape == \A a \in Apids : open[a] /= <<>> =>
                /\ open[a][1].flag = "F"
                /\ \A i \in DOMAIN open[a] : i >= 2 => open[a][i].flag = "C"
\* ids inside a group ascend (needed to carry LastWellFormed's ordering clause)
OpenAscending == \A a \in Apids : \A i \in DOMAIN open[a] : i + 1 \in DOMAIN open[a] => open[a][i].id < open[a][i + 1].id
LastWellFormed ==
    last /= <<>> =>
       \/ Len(last) = 1 /\ last[1].flag = "U"
       \/ /\ Len(last) >= 2
          /\ last[1].flag = "F" /\ last[Len(last)].flag = "L"
          /\ \A i \in DOMAIN last : (i >= 2 /\ i <= Len(last) - 1) => last[i].flag = "C"
          /\ \A i \in DOMAIN last : last[i].apid = last[1].apid
          /\ Consecutive(last)
          /\ \A i \in DOMAIN last : i + 1 \in DOMAIN last => last[i].id < last[i + 1].id
\* the action properties of Segments.tla as state predicates over (before-copy, now)
NoReuse == Ids(last) \intersect usedBefore = {}
OnlyWhenComplete == last /= <<>> => last[Len(last)].id = n
PerApidIndependent == \A a \in Apids : open[a] /= openBefore[a] => \A b \in Apids \ {a} : open[b] = openBefore[b]

IndInv == TypeOK /\ Fresh /\ OpenUnused /\ OpenDisjoint /\ OpenShape /\ OpenAscending /\ LastWellFormed
StepProps == NoReuse /\ OnlyWhenComplete /\ PerApidIndependent
IndInvAndStep == IndInv /\ (n > 0 => StepProps)

\* an arbitrary state satisfying IndInv (bounded container sizes, unbounded history length n)
IndInit == /\ open = Gen(4) /\ used = Gen(6) /\ last = Gen(5) /\ warn = Gen(1) /\ n = Gen(1)
           /\ usedBefore = Gen(6) /\ openBefore = Gen(4)
           /\ IndInvAndStep
=============================================================================
