------------------------------ MODULE MC_Numeric ------------------------------
(* Exhaustive table for Numeric: every pattern of every integer width up to MaxW (3 encodings; both byte      *)
(* orders at whole-byte widths), every binary16 pattern (both byte orders).  One state per case, one step      *)
(* computing the typed result; invariants cross-check the bit-level operators against plain arithmetic.        *)
EXTENDS Numeric, Json
CONSTANTS MaxW, Mode      \* Mode: "int" | "half" | "wide" (boundary patterns of wide fields, export only)
VARIABLES kind, fbits, enc, order, res, pc
vars == <<kind, fbits, enc, order, res, pc>>

NatBits(v, w) == [i \in 1 .. w |-> (v \div Pow2(w - i)) % 2]
Encs == {"unsigned", "signed", "twosComplement"}

\* boundary patterns of a w-bit field
Pat(w, k) == CASE k = 1 -> [i \in 1 .. w |-> 0]
               [] k = 2 -> [i \in 1 .. w |-> 1]
               [] k = 3 -> [i \in 1 .. w |-> IF i = 1 THEN 1 ELSE 0]
               [] k = 4 -> [i \in 1 .. w |-> IF i = 1 THEN 0 ELSE 1]
               [] k = 5 -> [i \in 1 .. w |-> i % 2]
               [] k = 6 -> [i \in 1 .. w |-> IF i = w THEN 1 ELSE 0]
               [] k = 7 -> [i \in 1 .. w |-> IF (i - 1) \div 8 = 0 THEN 1 ELSE IF i % 3 = 0 THEN 1 ELSE 0]
               [] k = 8 -> [i \in 1 .. w |-> IF i <= 8 THEN 0 ELSE 1]
WideWidths == {11, 12, 15, 16, 17, 23, 24, 25, 31, 32, 33, 40, 48, 56, 63, 64, 65, 72, 128}
\* float boundary classes: exponent in {0, 1, mid, max-1, max} x fraction in {0, 1, msb, all ones, pattern} x sign
FltPat(w, s, ek, fk) ==
    LET eb == ExpBits(w)  m == w - 1 - eb
        E == CASE ek = 1 -> 0 [] ek = 2 -> 1 [] ek = 3 -> Bias(w) [] ek = 4 -> Pow2(eb) - 2 [] ek = 5 -> Pow2(eb) - 1
        F == CASE fk = 1 -> [i \in 1 .. m |-> 0] [] fk = 2 -> [i \in 1 .. m |-> IF i = m THEN 1 ELSE 0]
               [] fk = 3 -> [i \in 1 .. m |-> IF i = 1 THEN 1 ELSE 0] [] fk = 4 -> [i \in 1 .. m |-> 1]
               [] fk = 5 -> [i \in 1 .. m |-> IF i % 3 = 1 THEN 1 ELSE 0]
    IN <<s>> \o NatBits(E, eb) \o F

MCInit ==
    /\ res = <<>> /\ pc = "call"
    /\ CASE Mode = "int" ->
              /\ kind = "int"
              /\ \E w \in 1 .. MaxW : \E v \in 0 .. Pow2(w) - 1 : fbits = NatBits(v, w)
              /\ enc \in Encs
              /\ order \in (IF Len(fbits) % 8 = 0 THEN {"msb", "lsb"} ELSE {"msb"})
         [] Mode = "half" ->
              /\ kind = "ieee" /\ enc = "IEEE754" /\ order \in {"msb", "lsb"}
              /\ \E v \in 0 .. 65535 : fbits = NatBits(v, 16)
         [] Mode = "wide" ->
              \/ /\ kind = "int" /\ enc \in Encs
                 /\ \E w \in WideWidths : \E k \in 1 .. 8 : fbits = Pat(w, k)
                 /\ order \in (IF Len(fbits) % 8 = 0 THEN {"msb", "lsb"} ELSE {"msb"})
              \/ /\ kind = "ieee" /\ enc = "IEEE754" /\ order \in {"msb", "lsb"}
                 /\ \E w \in {32, 64} : \E s \in {0, 1} : \E ek \in 1 .. 5 : \E fk \in 1 .. 5 : fbits = FltPat(w, s, ek, fk)
              \/ /\ kind = "mil" /\ enc = "MILSTD_1750A" /\ order \in {"msb", "lsb"}
                 /\ \E mk \in 1 .. 8 : \E ev \in {0, 1, 127, 128, 255, 23, 232} : fbits = Pat(24, mk) \o NatBits(ev, 8)

Compute == /\ pc = "call"
           /\ res' = NumDecode(kind, fbits, enc, order)
           /\ pc' = "done" /\ UNCHANGED <<kind, fbits, enc, order>>
MCSpec == MCInit /\ [][Compute]_vars

\* integers: the bit-level result equals plain arithmetic on the (byte-ordered) field value
IntAgrees == (pc = "done" /\ kind = "int" /\ Len(fbits) <= 24) =>
                TIntToNumber(res) = (IF enc = "unsigned" THEN BitsToInt(Ordered(fbits, order))
                                                         ELSE SmallSigned(Ordered(fbits, order)))
IntCanonical == (pc = "done" /\ kind = "int") => /\ (res.mag # <<>> => res.mag[1] = 1)
                                                 /\ (res.mag = <<>> => ~res.neg)
\* binary16: classes partition the patterns as IEEE 754 says; finite significands are odd
HalfClasses == (pc = "done" /\ kind = "ieee" /\ Len(fbits) = 16) =>
                  LET b == Ordered(fbits, order)
                      E == BitsToInt(SubSeq(b, 2, 6))
                      F == BitsToInt(SubSeq(b, 7, 16))
                  IN /\ res.cls = (IF E = 31 THEN (IF F = 0 THEN "inf" ELSE "nan") ELSE IF E = 0 /\ F = 0 THEN "zero" ELSE "fin")
                     /\ (res.cls = "fin" => res.sig[Len(res.sig)] = 1 /\ res.sig[1] = 1)
                     /\ (res.cls # "nan" => res.neg = (b[1] = 1))
TrailingZerosOf(x) == CHOOSE k \in 0 .. 11 : x % Pow2(k) = 0 /\ (x \div Pow2(k)) % 2 = 1
\* binary16: value * 2^24 is an integer below 2^40; check it exactly in two 20-bit halves against sig * 2^(exp+24)
HalfValue == (pc = "done" /\ kind = "ieee" /\ Len(fbits) = 16 /\ res.cls = "fin") =>
                LET b == Ordered(fbits, order)
                    E == BitsToInt(SubSeq(b, 2, 6))
                    F == BitsToInt(SubSeq(b, 7, 16))
                    \* exact: value = (IF E = 0 THEN F ELSE 1024 + F) * 2^(max(E,1) - 25)
                    M == IF E = 0 THEN F ELSE 1024 + F
                    sh == (IF E = 0 THEN 1 ELSE E) - 25
                IN /\ BitsToInt(res.sig) * Pow2(TrailingZerosOf(M)) = M
                   /\ res.exp = sh + TrailingZerosOf(M)
Export == pc = "done" => PrintT(<<"R", ToJson([k |-> kind, b |-> fbits, e |-> enc, o |-> order, r |-> res])>>)
=============================================================================
