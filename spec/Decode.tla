-------------------------------- MODULE Decode --------------------------------
(***************************************************************************)
(* XtcePacketDefinition.parse_ccsds_packet: the per-packet container walk.   *)
(* Properties C05 (inheritance selects the unique matching structure, in     *)
(* order), C14 (bit consumption accounted, over-reads never clean) and the   *)
(* per-packet part of C01.                                                   *)
(*                                                                         *)
(* State: a stack of frames <<container, next entry index>> (nested          *)
(* ContainerRefEntry are expanded in place), the decoded items, the bit      *)
(* cursor, a status and the `poisoned` flag (a read that was not inside the  *)
(* packet, or had a negative computed width).  One action per step of the    *)
(* code: decode one parameter entry, enter / leave a nested container, end   *)
(* of a container's entries, choice of the unique valid inheritor, and the   *)
(* three ways a walk ends.  The case (definition + packet) is a constant     *)
(* record `Case`, supplied by MC_/Trace_ modules, so it is not in the state. *)
(*                                                                         *)
(* Values are exact typed records: [t|->"int",neg,mag] [t|->"flt",cls,neg,   *)
(* sig,exp] (Numeric), [t|->"bool",n], [t|->"str",s] (enum label),           *)
(* [t|->"strb",bytes] (decoded text bytes), [t|->"bin",bytes].  Values       *)
(* referenced by criteria / lengths / calibrators are converted to the small *)
(* exact domain of Criteria/Calib (Small); outside it the outcome is "undef" *)
(* (the specification does not decide the case).                             *)
(***************************************************************************)
EXTENDS Numeric, StrBin, Calib, Json, IOUtils

\* the cases (definition + packet [+ what the implementation did]) come from a file written by the harness:
\* exhaustive enumerations for the bounded runs, logged executions for trace validation
Cases == ndJsonDeserialize(IOEnv.TRACE_FILE)
VARIABLES cid, stack, items, pos, status, poisoned
dvars == <<cid, stack, items, pos, status, poisoned>>

\* a case id is <<definition index, packet index>>: each input line holds one definition and many packets
Defn == Cases[cid[1]].defn
Pkt == Cases[cid[1]].pkts[cid[2]]
NBits == 8 * Len(Pkt)
Cont(c) == Defn.containers[c]
TypeOf(p) == Defn.types[Defn.params[p].type]

\* ---- conversions between the exact wide forms and the small domain of Criteria / Calib
Wide == [t |-> "wide"]
Max0(x) == IF x > 0 THEN x ELSE 0
Small(v) ==
    CASE v.t = "int" -> IF Len(v.mag) <= 20 THEN [t |-> "int", n |-> IF v.neg THEN 0 - BitsToInt(v.mag) ELSE BitsToInt(v.mag)] ELSE Wide
      [] v.t = "flt" -> IF v.cls = "zero" THEN [t |-> "flt", num |-> 0, den |-> 1]
                        ELSE IF v.cls = "fin" /\ Len(v.sig) + Max0(v.exp) <= 18 /\ v.exp >= 0 - 10
                        THEN [t |-> "flt", num |-> (IF v.neg THEN 0 - 1 ELSE 1) * BitsToInt(v.sig) * Pow2(Max0(v.exp)),
                                           den |-> Pow2(Max0(0 - v.exp))]
                        ELSE Wide
      [] v.t = "bool" -> v
      [] v.t = "str" -> v
      [] OTHER -> Wide
NatBits30(v) == StripLeading([i \in 1 .. 30 |-> (v \div Pow2(30 - i)) % 2])
Log2(d) == CHOOSE k \in 0 .. 30 : Pow2(k) = d
IsPow2(d) == \E k \in 0 .. 30 : Pow2(k) = d
\* a small rational float back to the exact wide form
WideOfFlt(f) == IF f.num = 0 THEN TFlt("zero", FALSE, <<>>, 0)
                ELSE LET b == NatBits30(Abs(f.num))
                     IN TFlt("fin", f.num < 0, StripTrailing(b), TrailingZeros(b) - Log2(f.den))

\* env for Criteria / Calib / StrBin from the items decoded so far (a mapping: the last value of a name wins)
Names(its) == {its[i].name : i \in 1 .. Len(its)}
LastOf(its, nm) == its[CHOOSE i \in 1 .. Len(its) : its[i].name = nm /\ \A j \in i + 1 .. Len(its) : its[j].name # nm]
EnvOfItems(its) == [nm \in Names(its) |-> [v |-> Small(LastOf(its, nm).val), r |-> Small(LastOf(its, nm).raw)]]

\* ---- decoding one parameter at the cursor
\* result: [k |-> "val", val, raw, cls, adv] | [k |-> "err"] | [k |-> "undef"] | [k |-> "poison"]
HasCal(pt) == pt.cal.default.k # "none" \/ Len(pt.cal.context) > 0
NumKind(enc) == IF enc.k = "int" THEN "int" ELSE IF enc.fmt = "ieee" THEN "ieee" ELSE "mil"
NumEnc(enc) == IF enc.k = "int" THEN enc.enc ELSE "float"

\* TRUE when calibrating the raw value is not known to succeed (no verdict then): value outside the small domain, undecided
\* context criteria, or a calibrator that rejects the value
CalFails(pt, env, rawS) ==
    IF ~HasCal(pt) THEN FALSE
    ELSE IF rawS.t = "wide" THEN TRUE
    ELSE LET s == Select(pt.cal, env, rawS) IN
         IF s.k = "undef" THEN TRUE
         ELSE IF s.k = "none" THEN FALSE
         ELSE Apply(s.cal, RatOf(rawS)).k = "err"

DecodeNumeric(pt, env, p) ==
    LET w == pt.enc.w IN
    IF p + w > NBits THEN [k |-> "poison"]            \* the field extends past the end of the packet
    ELSE LET rawW == NumDecode(NumKind(pt.enc), SliceBits(Pkt, p, w), NumEnc(pt.enc), pt.enc.order)
             rawS == Small(rawW)
             rcls == IF pt.enc.k = "int" THEN "Int" ELSE "Float"
         IN CASE pt.kind \in {"int", "float", "abstime", "reltime"} ->
                   IF ~HasCal(pt) THEN [k |-> "val", val |-> rawW, raw |-> rawW, cls |-> rcls, adv |-> w]
                   ELSE IF rawS.t = "wide" THEN [k |-> "undef"]
                   ELSE LET s == Select(pt.cal, env, rawS) IN
                        IF s.k = "undef" THEN [k |-> "undef"]
                        ELSE IF s.k = "none" THEN [k |-> "val", val |-> rawW, raw |-> rawW, cls |-> rcls, adv |-> w]
                        ELSE LET a == Apply(s.cal, RatOf(rawS)) IN
                             IF a.k = "err" THEN [k |-> "err"]
                             ELSE IF ~IsPow2(Norm(a.r)[2]) THEN [k |-> "undef"]
                             ELSE [k |-> "val", val |-> WideOfFlt(TF(a.r)), raw |-> rawW, cls |-> "Float", adv |-> w]
              [] pt.kind = "enum" ->
                   \* enumerations and booleans are derived from the RAW value; calibrators declared on their encoding are applied
                   \* by the decoder first and only matter when they fail (then any outcome is accepted, as in C08)
                   IF CalFails(pt, env, rawS) THEN [k |-> "undef"]
                   ELSE IF rawS.t = "wide" THEN [k |-> "err"]
                   ELSE LET S == {pt.enum[i] : i \in 1 .. Len(pt.enum)}
                            m == {e \in S : REq(RatOf(e.raw), RatOf(rawS))}
                        IN IF m = {} THEN [k |-> "err"]
                           ELSE [k |-> "val", val |-> [t |-> "str", s |-> (CHOOSE e \in m : TRUE).label], raw |-> rawW,
                                 cls |-> "Str", adv |-> w]
              [] pt.kind = "bool" ->
                   IF CalFails(pt, env, rawS) THEN [k |-> "undef"]
                   ELSE LET truthy == IF rawW.t = "int" THEN rawW.mag # <<>> ELSE rawW.cls # "zero"
                        IN [k |-> "val", val |-> [t |-> "bool", n |-> IF truthy THEN 1 ELSE 0], raw |-> rawW, cls |-> "Bool", adv |-> w]

DecodeStrBin(pt, env, p) ==
    LET L == BufLen(pt.sb.len, env, pt.sb.k = "str") IN
    IF L.k = "neg" THEN [k |-> "poison"]                 \* a negative computed width
    ELSE IF L.k = "undef" THEN [k |-> "undef"]
    ELSE IF L.k = "nomatch" THEN [k |-> "err"]
    ELSE IF p + L.n > NBits THEN [k |-> "poison"]        \* the field extends past the end of the packet
    ELSE IF pt.sb.k = "bin"
         THEN LET b == BinDecode(Pkt, p, L.n) IN
              [k |-> "val", val |-> [t |-> "bin", bytes |-> b.raw], raw |-> [t |-> "bin", bytes |-> b.raw], cls |-> "Binary", adv |-> L.n]
         ELSE IF L.n = 0 THEN [k |-> "undef"]
         ELSE LET s == StrDecode(Pkt, p, L.n, pt.sb.delim) IN
              IF s.k = "undef" THEN [k |-> "undef"] ELSE IF s.k = "err" THEN [k |-> "err"]
              ELSE [k |-> "val", val |-> [t |-> "strb", bytes |-> s.text], raw |-> [t |-> "bin", bytes |-> s.raw], cls |-> "Str", adv |-> L.n]

DecodeOne(pname, its, p) ==
    LET pt == TypeOf(pname) IN
    IF pt.kind \in {"bin", "str"} THEN DecodeStrBin(pt, EnvOfItems(its), p) ELSE DecodeNumeric(pt, EnvOfItems(its), p)

\* ---- the walk
Top == stack[Len(stack)]
Entries(c) == Cont(c).entries
Inheritors(c) == {d \in DOMAIN Defn.containers : Cont(d).base = c}
CritVal(d, its) == EvalAll(Cont(d).crit, EnvOfItems(its), [t |-> "none"])
Valid(c, its) == {d \in Inheritors(c) : CritVal(d, its) = "T"}
Unknown(c, its) == {d \in Inheritors(c) : CritVal(d, its) = "U"}

InitCase(di, pi) == /\ cid = <<di, pi>> /\ stack = <<[c |-> Cases[di].defn.root, i |-> 1]>> /\ items = <<>> /\ pos = 0
               /\ status = "walk" /\ poisoned = FALSE

StepParam ==
    /\ status = "walk" /\ Top.i <= Len(Entries(Top.c)) /\ Entries(Top.c)[Top.i].k = "p"
    /\ LET nm == Entries(Top.c)[Top.i].n
           r == DecodeOne(nm, items, pos)
       IN CASE r.k = "val" -> /\ items' = Append(items, [name |-> nm, val |-> r.val, raw |-> r.raw, cls |-> r.cls, w |-> r.adv])
                              /\ pos' = pos + r.adv
                              /\ stack' = [stack EXCEPT ![Len(stack)].i = @ + 1]
                              /\ UNCHANGED <<status, poisoned>>
            [] r.k = "err" -> status' = "error" /\ UNCHANGED <<items, pos, stack, poisoned>>
            [] r.k = "undef" -> status' = "undef" /\ UNCHANGED <<items, pos, stack, poisoned>>
            [] r.k = "poison" -> status' = "poisoned" /\ poisoned' = TRUE /\ UNCHANGED <<items, pos, stack>>
    /\ UNCHANGED cid

EnterNested ==
    /\ status = "walk" /\ Top.i <= Len(Entries(Top.c)) /\ Entries(Top.c)[Top.i].k = "c"
    /\ stack' = Append([stack EXCEPT ![Len(stack)].i = @ + 1], [c |-> Entries(Top.c)[Top.i].n, i |-> 1])
    /\ UNCHANGED <<cid, items, pos, status, poisoned>>

LeaveNested ==
    /\ status = "walk" /\ Top.i > Len(Entries(Top.c)) /\ Len(stack) > 1
    /\ stack' = SubSeq(stack, 1, Len(stack) - 1)
    /\ UNCHANGED <<cid, items, pos, status, poisoned>>

EndEntries ==
    /\ status = "walk" /\ Top.i > Len(Entries(Top.c)) /\ Len(stack) = 1
    /\ status' = "choose"
    /\ UNCHANGED <<cid, stack, items, pos, poisoned>>

\* exactly one inheritor whose restriction criteria all hold: descend
Choose ==
    /\ status = "choose" /\ Unknown(Top.c, items) = {} /\ Cardinality(Valid(Top.c, items)) = 1
    /\ stack' = <<[c |-> CHOOSE d \in Valid(Top.c, items) : TRUE, i |-> 1]>>
    /\ status' = "walk"
    /\ UNCHANGED <<cid, items, pos, poisoned>>
EndConcrete ==
    /\ status = "choose" /\ Unknown(Top.c, items) = {} /\ Valid(Top.c, items) = {} /\ ~Cont(Top.c).abstract
    /\ status' = "ok" /\ UNCHANGED <<cid, stack, items, pos, poisoned>>
UnrecAbstract ==
    /\ status = "choose" /\ Unknown(Top.c, items) = {} /\ Valid(Top.c, items) = {} /\ Cont(Top.c).abstract
    /\ status' = "unrec" /\ UNCHANGED <<cid, stack, items, pos, poisoned>>
UnrecAmbiguous ==
    /\ status = "choose" /\ Unknown(Top.c, items) = {} /\ Cardinality(Valid(Top.c, items)) > 1
    /\ status' = "unrec" /\ UNCHANGED <<cid, stack, items, pos, poisoned>>
\* a restriction criterion is not decided by the specification (missing operand, value outside the exact domain)
ChooseUndefined ==
    /\ status = "choose" /\ Unknown(Top.c, items) # {}
    /\ status' = "undef" /\ UNCHANGED <<cid, stack, items, pos, poisoned>>

Walk == StepParam \/ EnterNested \/ LeaveNested \/ EndEntries \/ Choose \/ EndConcrete \/ UnrecAbstract
        \/ UnrecAmbiguous \/ ChooseUndefined
Terminal == status \in {"ok", "unrec", "error", "undef", "poisoned"}

\* ---- the observable packet: a mapping (first position, last value)
FirstIdx(its, nm) == CHOOSE i \in 1 .. Len(its) : its[i].name = nm /\ \A j \in 1 .. i - 1 : its[j].name # nm
IsFirst(its, i) == \A j \in 1 .. i - 1 : its[j].name # its[i].name
RECURSIVE MappingFrom(_, _)
MappingFrom(its, i) == IF i > Len(its) THEN <<>>
                       ELSE IF IsFirst(its, i)
                            THEN <<[name |-> its[i].name, val |-> LastOf(its, its[i].name).val, raw |-> LastOf(its, its[i].name).raw,
                                    cls |-> LastOf(its, its[i].name).cls]>> \o MappingFrom(its, i + 1)
                            ELSE MappingFrom(its, i + 1)
Mapping(its) == MappingFrom(its, 1)

\* ---- invariants
RECURSIVE SumW(_)
SumW(its) == IF its = <<>> THEN 0 ELSE its[Len(its)].w + SumW(SubSeq(its, 1, Len(its) - 1))
\* C14: after every step the cursor is the sum of the widths of the decoded fields, inside the packet
CursorIsSum == pos = SumW(items) /\ pos <= NBits
\* C05: the containers on the stack are a root-to-leaf chain of nested references; the bottom frame is on the
\* inheritance path from the root
RECURSIVE OnPath(_)
OnPath(c) == c = Defn.root \/ (Cont(c).base # "" /\ OnPath(Cont(c).base))
PathOK == OnPath(stack[1].c)
\* C05: a container is only entered through inheritance when all of its restriction criteria hold
ChosenSatisfied == (status = "walk" /\ stack[1].i = 1 /\ Len(stack) = 1 /\ stack[1].c # Defn.root) =>
                       CritVal(stack[1].c, items) = "T"
=============================================================================
