--------------------------- MODULE Trace_RoundTrip ---------------------------
(* Run the ordering model on every case and compare the cache orders after Build and after each of three write/load     *)
(* cycles with what the real library produced: obs = [[corder, porder, torder], ...] (4 entries).                        *)
EXTENDS RoundTrip
VARIABLES st
TInit == RInit /\ st = "run"
Step == st = "run" /\ ~RDone /\ RNext /\ UNCHANGED st
Verdict == /\ st = "run" /\ RDone /\ st' = "done"
           /\ LET ok == hist = Case.obs IN
              PrintT(<<IF ok THEN "ACCEPT" ELSE "REJECT", cid, IF ok THEN "" ELSE ToJson(hist)>>)
           /\ UNCHANGED rvars
TNext == Step \/ Verdict
=============================================================================
