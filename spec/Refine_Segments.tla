-------------------------- MODULE Refine_Segments --------------------------
(* TLC: every behaviour of Ind_Segments (the annotated restatement Apalache proves inductive) is a behaviour of Segments.tla,  *)
(* the module the C12 checks replay into the code.    tlc -config Refine_Segments.cfg Refine_Segments.tla           *)
EXTENDS Ind_Segments, TLC
SmallSeqs == {16382, 16383, 0, 1}
Seg == INSTANCE Segments WITH Apids <- {1, 2}, Seqs <- SmallSeqs, AsIs <- FALSE, MaxLen <- 1000
IndSpec == Init /\ [][Next]_<<open, used, last, warn, n, usedBefore, openBefore>>
Bounded == n <= 4
RefinesSegments == Seg!Spec
StepPropsHold == n > 0 => StepProps
=============================================================================
