---------------------------- MODULE Trace_Header ----------------------------
(* Validate logged create_ccsds_packet calls and accessor reads against Header.                            *)
(* Lines: {kind:"create", f:{ver..seq}, n, ok, h:[6 bytes], acc:[ver,typ,shf,apid,flags,seq,len], fr:[sizes]} *)
(*        {kind:"unpack", h:[6 bytes], size, acc:[...]}   (accessors on an arbitrary framed packet)         *)
EXTENDS HeaderOps, Json, IOUtils
VARIABLES l
TLog == ndJsonDeserialize(IOEnv.TRACE_FILE)
AccOf(u, len) == <<u.ver, u.typ, u.shf, u.apid, u.flags, u.seq, len>>
Check(e) ==
  IF e.kind = "create"
  THEN IF e.ok # Valid(e.f, e.n) THEN "validation"
       ELSE IF ~e.ok THEN "ok"
       ELSE IF e.h # Pack(e.f, e.n) THEN "layout"
       ELSE IF e.acc # AccOf(e.f, e.n - 1) THEN "accessors"
       ELSE IF e.fr # <<6 + e.n>> THEN "reframe"
       ELSE "ok"
  ELSE IF e.acc # AccOf(Unpack(e.h), e.size - 7) THEN "accessors" ELSE "ok"
Init == l = 1
Next == /\ l <= Len(TLog) + 1
        /\ IF l <= Len(TLog)
           THEN LET c == Check(TLog[l]) IN (c # "ok") => PrintT(<<"REJECT", l, c>>)
           ELSE PrintT(<<"DONE", Len(TLog)>>)
        /\ l' = l + 1
=============================================================================
