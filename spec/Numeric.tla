------------------------------- MODULE Numeric -------------------------------
(***************************************************************************)
(* Integer and float field decoding (IntegerDataEncoding / FloatDataEncoding *)
(* _get_raw_value), property C04, on bit sequences of any width.            *)
(*                                                                         *)
(* Typed results (TLC integers are 32-bit, there are no floats):            *)
(*   [t |-> "int", neg, mag]            canonical sign-magnitude, mag has no *)
(*                                      leading zero, <<>> for 0            *)
(*   [t |-> "flt", cls, neg, sig, exp]  cls in {zero, fin, inf, nan};       *)
(*                                      value = (-1)^neg * sig * 2^exp with  *)
(*                                      sig an odd number given as bits      *)
(* All operators are non-recursive over the field bits.                     *)
(***************************************************************************)
EXTENDS Bits, TLC

FirstOne(b) == IF \E i \in 1 .. Len(b) : b[i] = 1
               THEN CHOOSE i \in 1 .. Len(b) : b[i] = 1 /\ \A j \in 1 .. i - 1 : b[j] = 0 ELSE 0
LastOne(b) ==  IF \E i \in 1 .. Len(b) : b[i] = 1
               THEN CHOOSE i \in 1 .. Len(b) : b[i] = 1 /\ \A j \in i + 1 .. Len(b) : b[j] = 0 ELSE 0
StripLeading(b) == IF FirstOne(b) = 0 THEN <<>> ELSE SubSeq(b, FirstOne(b), Len(b))
StripTrailing(b) == IF LastOne(b) = 0 THEN <<>> ELSE SubSeq(b, 1, LastOne(b))
TrailingZeros(b) == IF LastOne(b) = 0 THEN 0 ELSE Len(b) - LastOne(b)

\* magnitude of the negative two's-complement number b (sign bit set): invert above the lowest set bit
TwosMag(b) == LET lo == LastOne(b)
              IN [i \in 1 .. Len(b) |-> IF i < lo THEN 1 - b[i] ELSE b[i]]

TInt(neg, magbits) == [t |-> "int", neg |-> (neg /\ StripLeading(magbits) # <<>>), mag |-> StripLeading(magbits)]
TFlt(cls, neg, sigbits, e) == [t |-> "flt", cls |-> cls, neg |-> neg, sig |-> sigbits, exp |-> e]

\* byte order is honoured for whole-byte widths (the claimed domain)
Ordered(bits, order) == IF order = "lsb" /\ Len(bits) % 8 = 0 THEN ReverseBytes(bits) ELSE bits

IntDecode(bits, enc, order) ==
    LET b == Ordered(bits, order)
    IN IF enc = "unsigned" \/ Len(b) = 0 \/ b[1] = 0 THEN TInt(FALSE, b)
       ELSE TInt(TRUE, TwosMag(b))

\* ---- IEEE 754 binary16/32/64
ExpBits(w) == CASE w = 16 -> 5 [] w = 32 -> 8 [] w = 64 -> 11
Bias(w) == CASE w = 16 -> 15 [] w = 32 -> 127 [] w = 64 -> 1023
IeeeDecode(bits, order) ==
    LET b == Ordered(bits, order)
        w == Len(b)
        eb == ExpBits(w)
        m == w - 1 - eb
        neg == b[1] = 1
        E == BitsToInt(SubSeq(b, 2, 1 + eb))
        F == SubSeq(b, 2 + eb, w)
        Fz == FirstOne(F) = 0
    IN IF E = Pow2(eb) - 1 THEN (IF Fz THEN TFlt("inf", neg, <<>>, 0) ELSE TFlt("nan", FALSE, <<>>, 0))
       ELSE IF E = 0 THEN (IF Fz THEN TFlt("zero", neg, <<>>, 0)
                           ELSE TFlt("fin", neg, StripTrailing(StripLeading(F)), 1 - Bias(w) - m + TrailingZeros(F)))
       ELSE TFlt("fin", neg, StripTrailing(<<1>> \o F), E - Bias(w) - m + (IF Fz THEN m ELSE TrailingZeros(F)))

\* ---- MIL-STD-1750A 32-bit: 24-bit two's-complement mantissa, 8-bit two's-complement exponent
SInt8(b) == IF b[1] = 1 THEN BitsToInt(b) - 256 ELSE BitsToInt(b)
Mil1750Decode(bits, order) ==
    LET b == Ordered(bits, order)
        mb == SubSeq(b, 1, 24)
        e == SInt8(SubSeq(b, 25, 32))
        neg == mb[1] = 1
        mag == IF neg THEN TwosMag(mb) ELSE mb
    IN IF FirstOne(mb) = 0 THEN TFlt("zero", FALSE, <<>>, 0)
       ELSE TFlt("fin", neg, StripTrailing(StripLeading(mag)), e - 23 + TrailingZeros(mag))

NumDecode(kind, bits, enc, order) ==
    CASE kind = "int" -> IntDecode(bits, enc, order)
      [] kind = "ieee" -> IeeeDecode(bits, order)
      [] kind = "mil" -> Mil1750Decode(bits, order)
ResultClass(kind) == IF kind = "int" THEN "Int" ELSE "Float"

\* ---- small-width arithmetic used to cross-check the bit-level operators in MC_Numeric
SmallSigned(bits) == IF Len(bits) > 0 /\ bits[1] = 1 THEN BitsToInt(bits) - Pow2(Len(bits)) ELSE BitsToInt(bits)
TIntToNumber(v) == IF v.neg THEN 0 - BitsToInt(v.mag) ELSE BitsToInt(v.mag)
\* ordering key of a positive finite float: position of the leading bit, then the significand left-aligned to 12 bits
FltTop(v) == Len(v.sig) + v.exp
FltLead(v) == BitsToInt(v.sig) * Pow2(12 - Len(v.sig))
FltLess(a, b) == FltTop(a) < FltTop(b) \/ (FltTop(a) = FltTop(b) /\ FltLead(a) < FltLead(b))
=============================================================================
