--------------------------- MODULE Trace_Generator ---------------------------
(* Validate logged next() calls on real generator objects against Generator: each case carries `ev`, the sequence     *)
(* of calls [g, res: "item"|"stop", id, ty: "pkt"|"err"|"raw", nwarn].                                                                      *)
EXTENDS Generator
VARIABLES l, st
tvars == <<gvars, l, st>>
Ev == GCases[cid].ev
TInit == GInit /\ l = 1 /\ st = "run"
Match == /\ st = "run" /\ l <= Len(Ev)
         /\ LET e == Ev[l] IN
              \/ /\ e.res = "item" /\ Advance(e.g)
                 /\ out'[e.g][Len(out'[e.g])].id = e.id /\ TyOf(out'[e.g][Len(out'[e.g])].kind) = e.ty
                 /\ e.nwarn = Warns(e.g, idx[e.g], idx'[e.g] - 1)
              \/ /\ e.res = "stop" /\ (Finish(e.g) \/ (done[e.g] /\ UNCHANGED gvars))
                 /\ e.nwarn = Warns(e.g, idx[e.g], Len(GenOf(e.g).pk))
         /\ l' = l + 1 /\ UNCHANGED st
Accept == /\ st = "run" /\ l = Len(Ev) + 1 /\ st' = "accepted" /\ PrintT(<<"ACCEPT", cid>>) /\ UNCHANGED <<gvars, l>>
Reject == /\ st = "run" /\ l <= Len(Ev) /\ ~ENABLED Match /\ st' = "rejected"
          /\ PrintT(<<"REJECT", cid, l, ToJson(Ev[l]), ToJson(out)>>) /\ UNCHANGED <<gvars, l>>
TNext == Match \/ Accept \/ Reject
TInv == st = "run" => (OutEqualsPerPacket /\ DoneMeansAll)
=============================================================================
