SPECIFICATION IndSpec
CONSTANT SeqRange <- SmallSeqs
CONSTRAINT Bounded
PROPERTY RefinesSegments
INVARIANT IndInv
INVARIANT StepPropsHold
CHECK_DEADLOCK FALSE
