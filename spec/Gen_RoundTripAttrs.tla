------------------------- MODULE Gen_RoundTripAttrs -------------------------
(* Export the attribute lattice of RoundTrip (every attribute at every value) so that each point becomes a real definition. *)
EXTENDS RoundTripAttrs, TLC
VARIABLES k
GInit == k = 0
GNext == k = 0 /\ k' = 1 /\ \A r \in AttrTable : \A v \in r.vals :
            PrintT(<<"ATTR", r.a, v, ReadAttr(r, WriteAttr(r, v)) = v, WriteAttr(r, v) = Absent>>)
=============================================================================
