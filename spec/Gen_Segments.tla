---------------------------- MODULE Gen_Segments ----------------------------
(* Segments plus a history variable, to export behaviours for replay into the real packet_generator:    *)
(* BFS with a small MaxLen prints every history of that length; -simulate prints random deeper ones.     *)
EXTENDS Segments, Json

VARIABLES hist, outs, ngap, nnostart
gvars == <<vars, hist, outs, ngap, nnostart>>

GenInit == Init /\ hist = <<>> /\ outs = <<>> /\ ngap = 0 /\ nnostart = 0

GenNext == /\ n < MaxLen
           /\ n' = n + 1
           /\ \E a \in Apids, f \in Flags, s \in Seqs :
                LET p == Pkt(a, f, s) IN
                  /\ Step(p)
                  /\ hist' = Append(hist, <<a, f, s>>)
           /\ outs' = IF last' # <<>> THEN Append(outs, [i \in 1 .. Len(last') |-> last'[i].id]) ELSE outs
           /\ ngap' = ngap + (IF warn' = "gap" THEN 1 ELSE 0)
           /\ nnostart' = nnostart + (IF warn' = "nostart" THEN 1 ELSE 0)

GenSpec == GenInit /\ [][GenNext]_gvars

Export == n = MaxLen => PrintT(<<"H", ToJson([h |-> hist, o |-> outs, g |-> ngap, s |-> nnostart])>>)
=============================================================================
