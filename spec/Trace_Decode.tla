---------------------------- MODULE Trace_Decode ----------------------------
(* Run the Decode walk on every case of the input file, checking the walk invariants at every step, and at     *)
(* the end compare with what the real parse_ccsds_packet did:                                                  *)
(*   obs = {outcome: "ok" | "unrec" | "exc", items: [{name, val, raw, cls}], pos, hdrn: [names], udn: [names]}   *)
(* Verdicts are total: one ACCEPT / REJECT line per case.                                                       *)
EXTENDS Decode
VARIABLES st
tvars == <<dvars, st>>

TraceInit == \E di \in 1 .. Len(Cases) : \E pi \in 1 .. Len(Cases[di].pkts) : InitCase(di, pi) /\ st = "run"
Obs == Cases[cid[1]].obs[cid[2]]
Map == Mapping(items)
NamesOf(m) == [i \in 1 .. Len(m) |-> m[i].name]
Min(a, b) == IF a < b THEN a ELSE b

Clause ==
    CASE status = "undef" -> "ok"
      [] status = "poisoned" -> IF Obs.outcome = "exc" \/ Obs.outcome = "unrec" \/ Obs.pos # NBits THEN "ok" ELSE "overread-delivered-clean"
      [] status = "error" -> IF Obs.outcome = "exc" THEN "ok" ELSE "error-expected"
      [] status = "unrec" -> IF Obs.outcome # "unrec" THEN "unrecognized-expected"
                             ELSE IF Obs.items # Map THEN "partial-data" ELSE "ok"
      [] status = "ok" -> IF Obs.outcome # "ok" THEN "packet-expected"
                          ELSE IF NamesOf(Obs.items) # NamesOf(Map) THEN "item-names-or-order"
                          ELSE IF Obs.items # Map THEN "item-values"
                          ELSE IF Obs.pos # pos THEN "cursor"
                          ELSE IF Obs.hdrn # SubSeq(NamesOf(Map), 1, Min(7, Len(Map))) THEN "header-view"
                          ELSE IF Obs.udn # SubSeq(NamesOf(Map), Min(7, Len(Map)) + 1, Len(Map)) THEN "user-data-view"
                          ELSE "ok"

\* ---- generator-level classification of this packet (property C14), when the case carries it:
\* gen = {chk, y1, w1, x1, y0, w0, x0}: items yielded / length-mismatch warning issued / exception escaped, for the packet run
\* alone through packet_generator with parse_bad_pkts = True (1) and False (0)
G == Obs.gen
Exact == pos = NBits
GenClause ==
    IF ~G.chk THEN "ok"
    ELSE CASE status = "undef" -> "ok"
           [] status = "ok" /\ Exact ->
                 IF G.x1 \/ G.x0 THEN "clean-packet-raised"
                 ELSE IF G.w1 \/ G.w0 THEN "clean-packet-flagged"
                 ELSE IF G.y1 # 1 \/ G.y0 # 1 THEN "clean-packet-not-delivered" ELSE "ok"
           [] status = "ok" /\ ~Exact ->
                 IF G.x1 \/ G.x0 THEN "ok"                                  \* fails with an exception: allowed
                 ELSE IF ~G.w1 \/ ~G.w0 THEN "length-mismatch-not-flagged"
                 ELSE IF G.y0 # 0 THEN "bad-packet-not-withheld"
                 ELSE IF G.y1 # 1 THEN "flagged-packet-lost-although-bad-packets-requested" ELSE "ok"
           [] status = "poisoned" ->
                 IF (~G.x1 /\ G.y1 > 0 /\ ~G.w1) \/ (~G.x0 /\ G.y0 > 0) THEN "overread-delivered-clean" ELSE "ok"
           [] status = "unrec" -> IF G.x1 \/ G.x0 THEN "unrecognized-raised" ELSE IF G.y1 # 0 \/ G.y0 # 0 THEN "unrecognized-delivered" ELSE "ok"
           [] status = "error" -> "ok"
Verd == IF Clause # "ok" THEN Clause ELSE GenClause

Step == st = "run" /\ ~Terminal /\ Walk /\ UNCHANGED st
Verdict == /\ st = "run" /\ Terminal
           /\ st' = "done"
           /\ PrintT(<<IF Verd = "ok" THEN "ACCEPT" ELSE "REJECT", cid[1], cid[2], Verd, status, pos,
                       IF Verd = "ok" THEN "" ELSE ToJson(Map), Exact>>)
           /\ UNCHANGED dvars
TraceNext == Step \/ Verdict
\* walk invariants, evaluated in every state of every case
TraceInv == (status \in {"walk", "choose", "ok", "unrec"}) => (CursorIsSum /\ PathOK /\ ChosenSatisfied)
=============================================================================
