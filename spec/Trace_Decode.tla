---------------------------- MODULE Trace_Decode ----------------------------
(* Run the Decode walk on every case of the input file, checking the walk invariants at every step, and at     *)
(* the end compare with what the real parse_ccsds_packet did:                                                  *)
(*   obs = {outcome: "ok" | "unrec" | "exc", items: [{name, val, raw, cls}], pos, hdrn: [names], udn: [names]}   *)
(* Verdicts are total: one ACCEPT / REJECT line per case.                                                       *)
EXTENDS Decode
VARIABLES st
tvars == <<dvars, st>>

TraceInit == \E di \in 1 .. Len(Cases) : \E pi \in 1 .. Len(Cases[di].pkts) : InitCase(di, pi) /\ st = "run"
Obs == Cases[cid[1]].obs[cid[2]]
Map == Mapping(items)
NamesOf(m) == [i \in 1 .. Len(m) |-> m[i].name]
Min(a, b) == IF a < b THEN a ELSE b

Clause ==
    CASE status = "undef" -> "ok"
      [] status = "poisoned" -> IF Obs.outcome = "exc" \/ Obs.outcome = "unrec" \/ Obs.pos # NBits THEN "ok" ELSE "overread-delivered-clean"
      [] status = "error" -> IF Obs.outcome = "exc" THEN "ok" ELSE "error-expected"
      [] status = "unrec" -> IF Obs.outcome # "unrec" THEN "unrecognized-expected"
                             ELSE IF Obs.items # Map THEN "partial-data" ELSE "ok"
      [] status = "ok" -> IF Obs.outcome # "ok" THEN "packet-expected"
                          ELSE IF NamesOf(Obs.items) # NamesOf(Map) THEN "item-names-or-order"
                          ELSE IF Obs.items # Map THEN "item-values"
                          ELSE IF Obs.pos # pos THEN "cursor"
                          ELSE IF Obs.hdrn # SubSeq(NamesOf(Map), 1, Min(7, Len(Map))) THEN "header-view"
                          ELSE IF Obs.udn # SubSeq(NamesOf(Map), Min(7, Len(Map)) + 1, Len(Map)) THEN "user-data-view"
                          ELSE "ok"

Step == st = "run" /\ ~Terminal /\ Walk /\ UNCHANGED st
Verdict == /\ st = "run" /\ Terminal
           /\ st' = "done"
           /\ PrintT(<<IF Clause = "ok" THEN "ACCEPT" ELSE "REJECT", cid[1], cid[2], Clause, status, pos,
                       IF Clause = "ok" THEN "" ELSE ToJson(Map)>>)
           /\ UNCHANGED dvars
TraceNext == Step \/ Verdict
\* walk invariants, evaluated in every state of every case
TraceInv == (status \in {"walk", "choose", "ok", "unrec"}) => (CursorIsSum /\ PathOK /\ ChosenSatisfied)
=============================================================================
