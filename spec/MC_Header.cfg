SPECIFICATION MCSpec
CONSTANTS
  Mode = "words"
INVARIANT RoundTrip
INVARIANT PackUnpack
INVARIANT BytesInRange
INVARIANT NothingBuiltWhenInvalid
CHECK_DEADLOCK FALSE
