SPECIFICATION Spec
CONSTANTS
  MaxN = 13
INVARIANT Export
CHECK_DEADLOCK FALSE
