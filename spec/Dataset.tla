-------------------------------- MODULE Dataset --------------------------------
(***************************************************************************)
(* space_packet_parser.xarr.create_dataset (property C18): files are read in *)
(* the order given; every packet the generator yields is appended to the     *)
(* rows of its APID; the field set of the first packet of an APID is the     *)
(* variable set of that APID's dataset, and a later packet of the same APID  *)
(* with another field set rejects the whole call (ValueError).               *)
(* A packet is [apid, fs, id]; `files` is a sequence of packet sequences.    *)
(***************************************************************************)
EXTENDS Integers, Sequences, FiniteSets, TLC, Json

CONSTANTS Apids, FieldSets, MaxPackets, MaxFiles
VARIABLES files, fi, pi, rows, fields, status
vars == <<files, fi, pi, rows, fields, status>>

Pk == [apid : Apids, fs : FieldSets]
\* all ways to lay out at most MaxPackets packets in at most MaxFiles files (ids are global positions)
FileSeqs == UNION {[1 .. n -> Pk] : n \in 0 .. MaxPackets}
Init == /\ \E nf \in 1 .. MaxFiles : \E f \in [1 .. nf -> FileSeqs] :
              /\ files = f
              /\ (LET tot == [k \in 1 .. nf |-> Len(f[k])] IN (IF nf = 1 THEN tot[1] ELSE tot[1] + tot[2]) <= MaxPackets)
        /\ fi = 1 /\ pi = 1 /\ rows = [a \in Apids |-> <<>>] /\ fields = [a \in Apids |-> "none"] /\ status = "run"

Cur == files[fi][pi]
Accept ==  /\ status = "run" /\ fi <= Len(files) /\ pi <= Len(files[fi])
           /\ (fields[Cur.apid] = "none" \/ fields[Cur.apid] = Cur.fs)
           /\ rows' = [rows EXCEPT ![Cur.apid] = Append(@, <<fi, pi>>)]
           /\ fields' = [fields EXCEPT ![Cur.apid] = Cur.fs]
           /\ pi' = pi + 1 /\ UNCHANGED <<files, fi, status>>
RejectFieldSet == /\ status = "run" /\ fi <= Len(files) /\ pi <= Len(files[fi])
                  /\ fields[Cur.apid] # "none" /\ fields[Cur.apid] # Cur.fs
                  /\ status' = "rejected" /\ UNCHANGED <<files, fi, pi, rows, fields>>
NextFile == /\ status = "run" /\ fi <= Len(files) /\ pi > Len(files[fi])
            /\ fi' = fi + 1 /\ pi' = 1 /\ UNCHANGED <<files, rows, fields, status>>
Finish ==   /\ status = "run" /\ fi > Len(files)
            /\ status' = "built" /\ UNCHANGED <<files, fi, pi, rows, fields>>
Next == Accept \/ RejectFieldSet \/ NextFile \/ Finish
Spec == Init /\ [][Next]_vars /\ WF_vars(Next)

\* rows of every APID are in stream order within file order, each packet of that APID exactly once
Ordered == \A a \in Apids : \A j, k \in 1 .. Len(rows[a]) : j < k =>
              (rows[a][j][1] < rows[a][k][1] \/ (rows[a][j][1] = rows[a][k][1] /\ rows[a][j][2] < rows[a][k][2]))
Complete == status = "built" =>
              \A f \in 1 .. Len(files) : \A p \in 1 .. Len(files[f]) :
                 \E r \in 1 .. Len(rows[files[f][p].apid]) : rows[files[f][p].apid][r] = <<f, p>>
OnlyOwn == \A a \in Apids : \A r \in 1 .. Len(rows[a]) : files[rows[a][r][1]][rows[a][r][2]].apid = a
\* a stream whose packets of one APID differ in field set is rejected, and only such a stream
Polymorphic == \E a \in Apids : \E f1, f2 \in 1 .. Len(files) : \E p1 \in 1 .. Len(files[f1]) : \E p2 \in 1 .. Len(files[f2]) :
                  files[f1][p1].apid = a /\ files[f2][p2].apid = a /\ files[f1][p1].fs # files[f2][p2].fs
RejectIff == (status = "rejected" => Polymorphic) /\ (status = "built" => ~Polymorphic)
Terminates == <>(status \in {"built", "rejected"})
Export == status \in {"built", "rejected"} => PrintT(<<"R", ToJson([files |-> files, status |-> status, rows |-> rows])>>)
=============================================================================
