------------------------------ MODULE MC_Cursor ------------------------------
EXTENDS Cursor, Json
CONSTANTS Alphabet, NBytes
Bufs == [1 .. NBytes -> Alphabet]
MCInit == \E b \in Bufs : \E p \in 0 .. 8 * NBytes : \E n \in 0 .. (8 * NBytes - p) : \E o \in {"int", "bytes"} :
             InitWith(b, p, o, n)
MCSpec == MCInit /\ [][Next]_vars
Export == pc = "done" => PrintT(<<"R", ToJson([b |-> buf, p |-> pos0, n |-> width, op |-> op, v |-> res, q |-> pos])>>)
=============================================================================
