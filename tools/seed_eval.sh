#!/bin/bash
# usage: tools/seed_eval.sh <ID> [check ids...]
# Confirms a sub-agent's seeded change (tests pass with it, demo fails with it and passes without), stores it under
# /verif/seeded/<ID>/, runs the quick check(s) against it in /repo and reverts. Prints a summary.
ID="$1"; shift; CHECKS="${@:-$ID}"
TAG="${SEEDTAG:-seed}"; SUF="${SEEDSUF:-}"; WT=/tmp/$TAG-$ID; OUT=${SEEDOUT:-/tmp/$TAG-$ID-out}; DST=/verif/seeded/$ID$SUF
[ -f $OUT/patch.diff ] || { echo "no patch for $ID"; exit 2; }
git -C /repo apply --check $OUT/patch.diff || { echo "PATCH DOES NOT APPLY to /repo HEAD"; exit 2; }
# own scratch worktree at current HEAD with the patch
SW=/tmp/seedcheck-$ID$SUF; rm -rf $SW; git -C /repo worktree add -q --detach $SW HEAD && git -C $SW apply $OUT/patch.diff
T=$( cd $SW && env -u SPP_VERIF_TRACE PYTHONPATH=$SW /venv/bin/python -m pytest -q -p no:cacheprovider -x 2>&1 | tail -1 )
D1=$( cd /tmp && PYTHONPATH=$SW timeout 300 /venv/bin/python $OUT/demo.py 2>&1 | tail -1; echo "exit=${PIPESTATUS[0]}" )
D0=$( cd /tmp && PYTHONPATH=/repo timeout 300 /venv/bin/python $OUT/demo.py 2>&1 | tail -1; echo "exit=${PIPESTATUS[0]}" )
{ echo "confirmed on $(date -u +%FT%TZ) against /repo $(git -C /repo rev-parse --short HEAD) in scratch worktree $SW (removed afterwards)"; echo "test suite with the change: $T"; echo "demo with the change: $D1"; echo "demo without the change (PYTHONPATH=/repo): $D0"; } > /tmp/seed-eval-$ID$SUF.txt
echo "[$ID] tests(with change): $T"; echo "[$ID] demo with change: $D1" | tr '\n' ' '; echo; echo "[$ID] demo without: $D0" | tr '\n' ' '; echo
mkdir -p $DST && cp $OUT/patch.diff $OUT/demo.py $OUT/meta.json $DST/ 2>/dev/null
# the checks import the library from SPP_REPO: run them against the scratch worktree that carries the change (/repo itself is not
# touched, so background runs that use /repo are not disturbed)
for c in $CHECKS; do
  R=$( cd /verif && SPP_REPO=$SW /venv/bin/python check.py $c --tier quick 2>&1 | grep -E "^VIOLATION|^check |MACHINERY|signature" | head -6 )
  echo "[$ID] check $c:"; echo "$R"
  { echo "quick check $c with the change (SPP_REPO=<scratch worktree carrying the patch>):"; echo "$R"; } >> /tmp/seed-eval-$ID$SUF.txt
done
mv /tmp/seed-eval-$ID$SUF.txt $DST/evaluation.txt
git -C /repo worktree remove --force $SW; git -C /repo status --short | head -3
