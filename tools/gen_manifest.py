#!/venv/bin/python
"""Regenerate /verif/MANIFEST.json from harness/registry.py."""
import json
import os
import subprocess
import sys

HERE = os.path.dirname(os.path.dirname(os.path.abspath(__file__)))
sys.path.insert(0, HERE)
from harness import registry  # noqa: E402

PY = "/venv/bin/python"
hooks_commits = []
try:
    out = subprocess.run(["git", "-C", "/repo", "log", "--format=%H %s"], capture_output=True, text=True).stdout
    hooks_commits = [l.split()[0] for l in out.splitlines() if " verif hooks" in l]
except Exception:
    pass

checks = []
for pid in sorted(registry.CHECKS):
    c = registry.CHECKS[pid]
    checks.append({
        "property_id": pid,
        "quick_cmd": f"{PY} check.py {pid} --tier quick",
        "thorough_cmd": f"{PY} check.py {pid} --tier thorough",
        "evidence_file": f"/verif/evidence/{pid}.json",
        "replay_cmd_template": f"{PY} check.py {pid} --replay {{path}}",
        "engine": "tlc",
        "level_claimed": {"category": c.get("category", "model_checking"), "text": c["text"],
                          "design_ref": "DESIGN.md section " + c["design"]},
        "level_note": c["note"],
        "technique": c["technique"],
    })
m = {
    "version": 1,
    "setup_cmd": f"{PY} tools/setup.py",
    "hooks": {
        "guard": "SPP_VERIF_TRACE",
        "enable": "SPP_VERIF_TRACE=1 in the environment before space_packet_parser is imported (check.py sets it)",
        "baseline_off_cmd": "cd /repo && env -u SPP_VERIF_TRACE /venv/bin/python -m pytest -ra -q -p no:cacheprovider --timeout=900 --continue-on-collection-errors",
        "source_commits": hooks_commits,
        "add_only": True,
    },
    "engines": [{"name": "tlc", "path": "/verif/spec", "serves_properties": sorted(registry.CHECKS),
                 "kind_free_text": "TLA+ specifications checked with TLC 1.8 (BFS, simulation, trace validation) driven by /verif/check.py"}],
    "checks": checks,
    "notes": "One driver (check.py), one module per property in harness/props, one TLA+ module family in spec/. "
             "known_findings.json lists genuine defects recorded rather than repaired and the 'fixed:' entries. "
             "`/venv/bin/python check.py selftest` demonstrates the binding (tampered recordings are rejected).",
    "not_applicable": [{"property_id": p, "reason": r} for p, r in sorted(registry.NOT_YET.items())],
}
with open(os.path.join(HERE, "MANIFEST.json"), "w") as f:
    json.dump(m, f, indent=1)
print("MANIFEST.json:", len(checks), "checks,", len(m["not_applicable"]), "not_applicable")
