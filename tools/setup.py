#!/venv/bin/python
"""Offline setup: syntax/semantic-check every TLA+ module with SANY and verify the interpreter and repo binding."""
import glob
import os
import subprocess
import sys

HERE = os.path.dirname(os.path.dirname(os.path.abspath(__file__)))
CP = "/opt/veriftools/tla/tla2tools.jar:/opt/veriftools/tla/CommunityModules-deps.jar"
bad = 0
mods = sorted(glob.glob(os.path.join(HERE, "spec", "*.tla")))
for m in mods:
    p = subprocess.run(["java", "-cp", CP, "tla2sany.SANY", os.path.basename(m)], cwd=os.path.join(HERE, "spec"),
                       capture_output=True, text=True)
    if p.returncode != 0 or "*** Errors" in p.stdout or "Fatal errors" in p.stdout:
        bad += 1
        print("SANY FAILED:", m)
        print(p.stdout[-2000:])
print(f"SANY: {len(mods) - bad}/{len(mods)} modules ok")
sys.path.insert(0, HERE)
from harness import core  # noqa: E402
core.bind_repo()
os.makedirs(os.path.join(HERE, "evidence"), exist_ok=True)
sys.exit(1 if bad else 0)
