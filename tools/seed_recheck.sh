#!/bin/bash
# usage: tools/seed_recheck.sh <seed dir under /verif/seeded, e.g. C04-3> [check ids...]   (env NOTE="text" appended to evaluation.txt)
# Re-runs quick check(s) against a stored seeded change in a scratch worktree (never /repo itself) and appends the outcome.
S="$1"; shift; ID="${S%%-*}"; CHECKS="${@:-$ID}"; DST=/verif/seeded/$S; SW=/tmp/seedre-$S
[ -f $DST/patch.diff ] || { echo "no stored seed $S"; exit 2; }
rm -rf $SW; git -C /repo worktree prune; git -C /repo worktree add -q --detach $SW HEAD && git -C $SW apply $DST/patch.diff || exit 2
for c in $CHECKS; do
  R=$( cd /verif && SPP_REPO=$SW /venv/bin/python check.py $c --tier quick 2>&1 | grep -E "^VIOLATION|^check |MACHINERY|signature" | head -6 )
  echo "[$S] check $c:"; echo "$R"
  { echo "re-run on $(date -u +%FT%TZ) after strengthening${NOTE:+ ($NOTE)}: quick check $c with the change:"; echo "$R"; } >> $DST/evaluation.txt
done
git -C /repo worktree remove --force $SW
