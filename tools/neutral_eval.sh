#!/bin/bash
# usage: tools/neutral_eval.sh <diff file> <label> [check ids...]
# Applies a property-preserving change in a scratch worktree (never /repo itself), runs the quick checks against it and prints every
# check that does not exit 0 (a false alarm to investigate). Results are appended to /verif/neutral/<label>.txt
D="$1"; L="$2"; shift 2; CHECKS="${@:-C01 C02 C03 C04 C05 C06 C07 C08 C09 C10 C11 C12 C13 C14 C15 C16 C17 C18 C19 C20}"
SW=/tmp/neutralcheck-$L; rm -rf $SW; git -C /repo worktree prune
git -C /repo worktree add -q --detach $SW HEAD && git -C $SW apply "$D" || { echo "[$L] does not apply"; exit 2; }
mkdir -p /verif/neutral; cp "$D" /verif/neutral/$L.diff; OUT=/verif/neutral/$L.txt; : > $OUT
for c in $CHECKS; do
  R=$( cd ${VDIR:-/verif} && SPP_REPO=$SW timeout 1500 /venv/bin/python check.py $c --tier quick 2>&1 | grep -E "^VIOLATION|^check |MACHINERY|signature|KNOWN" | head -8 )
  rc=$(echo "$R" | grep -o "exit=[0-9]*" | tail -1)
  echo "$c $rc" >> $OUT
  if [ "$rc" != "exit=0" ]; then echo "[$L] $c: $rc"; echo "$R" | head -6; echo "$R" >> $OUT; fi
done
git -C /repo worktree remove --force $SW
echo "[$L] done: $(grep -c 'exit=0' $OUT) of $(echo $CHECKS | wc -w) checks quiet"
