#!/bin/bash
# usage: tools/mut.sh <sed-expr> <file-in-repo> <ID...>   : apply a one-line mutant, run quick checks, revert
expr="$1"; file="$2"; shift 2
cd /repo && sed -i "$expr" "$file" && git diff --stat | tail -1
for id in "$@"; do (cd /verif && /venv/bin/python check.py $id --tier quick 2>&1 | grep -E "^VIOLATION|^check |MACHINERY|signature" | head -8); done
cd /repo && git checkout -- . && git status --short | head -3
