#!/bin/bash
# usage: tools/seed_all.sh [parallelism]   Re-runs every stored seeded change against the current checks (scratch worktrees, never /repo)
# and writes /verif/seeded/SUMMARY.txt: one line per seed, DETECTED / MISSED and by which check.
P="${1:-4}"
one() {
  S="$1"; ID="${S%%-*}"; DST=/verif/seeded/$S; SW=/tmp/seedall-$S
  [ -f $DST/superseded ] && { echo "$S SUPERSEDED (see evaluation.txt)"; return; }
  [ -f $DST/out_of_scope ] && { echo "$S OUT-OF-SCOPE (see out_of_scope)"; return; }
  CHECKS="$ID"; [ -f $DST/also_checks ] && CHECKS="$CHECKS $(cat $DST/also_checks)"
  rm -rf $SW; git -C /repo worktree add -q --detach $SW HEAD 2>/dev/null && git -C $SW apply $DST/patch.diff || { echo "$S APPLY-FAILED"; return; }
  RES="MISSED"; BY=""
  for c in $CHECKS; do
    R=$( cd ${VDIR:-/verif} && SPP_REPO=$SW /venv/bin/python check.py $c --tier quick 2>&1 | grep -E "^VIOLATION|^check |MACHINERY" )
    if echo "$R" | grep -q "^VIOLATION"; then RES="DETECTED"; BY="$BY $c($(echo "$R" | grep -c '^VIOLATION'))"; fi
    if echo "$R" | grep -q "MACHINERY"; then BY="$BY $c(machinery-failure)"; fi
  done
  git -C /repo worktree remove --force $SW
  echo "$S $RES$BY"
}
export -f one
cd /verif/seeded && ls -d C* | xargs -P $P -I{} bash -c 'one {}' | sort > /verif/seeded/SUMMARY.txt
git -C /repo worktree prune
cat /verif/seeded/SUMMARY.txt | awk '{print $2}' | sort | uniq -c
