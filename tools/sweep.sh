#!/bin/bash
# usage: tools/sweep.sh [quick|thorough] [seed]   runs every check in turn and prints one line per check (id, seconds, verdict lines)
TIER="${1:-quick}"; SEED="${2:-0}"
cd "$(dirname "$0")/.."
for id in C01 C02 C03 C04 C05 C06 C07 C08 C09 C10 C11 C12 C13 C14 C15 C16 C17 C18 C19 C20; do
  s=$(date +%s); r=$(VERIF_SEED=$SEED /venv/bin/python check.py $id --tier $TIER 2>&1 | grep -E "^VIOLATION|^check |MACHINERY" | tr '\n' ' '); e=$(date +%s)
  echo "$id $((e-s))s $r"
done
