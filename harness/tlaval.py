"""Parser for TLA+ values as printed by TLC (state dumps, PrintT, -simulate files) and for the
labelled state graph written by `-dump dot,actionlabels`; edge-cover path computation."""
import re
from collections import deque


class _P:
    def __init__(self, s):
        self.s = s
        self.i = 0

    def ws(self):
        while self.i < len(self.s) and self.s[self.i] in " \t\r\n":
            self.i += 1

    def peek(self, n=1):
        return self.s[self.i:self.i + n]

    def eat(self, tok):
        self.ws()
        if self.s.startswith(tok, self.i):
            self.i += len(tok)
            return True
        return False

    def expect(self, tok):
        if not self.eat(tok):
            raise ValueError(f"expected {tok!r} at {self.i}: {self.s[self.i:self.i+40]!r}")

    def value(self):
        self.ws()
        c = self.peek()
        if self.peek(2) == "<<":
            self.i += 2
            out = []
            if self.eat(">>"):
                return out
            while True:
                out.append(self.value())
                if self.eat(">>"):
                    return out
                self.expect(",")
        if c == "[":
            self.i += 1
            out = {}
            if self.eat("]"):
                return out
            while True:
                self.ws()
                m = re.compile(r"[A-Za-z_][A-Za-z0-9_]*").match(self.s, self.i)
                if not m:
                    raise ValueError(f"record field expected at {self.i}")
                k = m.group(0)
                self.i = m.end()
                self.expect("|->")
                out[k] = self.value()
                if self.eat("]"):
                    return out
                self.expect(",")
        if c == "{":
            self.i += 1
            out = []
            if self.eat("}"):
                return {"__set__": out}
            while True:
                out.append(self.value())
                if self.eat("}"):
                    return {"__set__": out}
                self.expect(",")
        if c == "(":
            # function  (a :> b @@ c :> d)
            self.i += 1
            out = []
            while True:
                k = self.value()
                self.expect(":>")
                v = self.value()
                out.append((k, v))
                if self.eat(")"):
                    break
                self.expect("@@")
            try:
                return {"__fn__": dict(out)}
            except TypeError:
                return {"__fnlist__": out}
        if c == '"':
            self.i += 1
            buf = []
            while True:
                ch = self.s[self.i]
                if ch == "\\":
                    nx = self.s[self.i + 1]
                    buf.append({"n": "\n", "t": "\t", "r": "\r", "f": "\f"}.get(nx, nx))
                    self.i += 2
                elif ch == '"':
                    self.i += 1
                    return "".join(buf)
                else:
                    buf.append(ch)
                    self.i += 1
        m = re.compile(r"-?\d+").match(self.s, self.i)
        if m:
            self.i = m.end()
            v = int(m.group(0))
            self.ws()
            if self.peek(2) == ".." and False:
                pass
            return v
        m = re.compile(r"[A-Za-z_][A-Za-z0-9_]*").match(self.s, self.i)
        if m:
            self.i = m.end()
            w = m.group(0)
            if w == "TRUE":
                return True
            if w == "FALSE":
                return False
            return {"__mv__": w}
        raise ValueError(f"cannot parse at {self.i}: {self.s[self.i:self.i+40]!r}")


def parse_value(text):
    p = _P(text)
    v = p.value()
    p.ws()
    if p.i != len(p.s):
        raise ValueError(f"trailing text at {p.i}: {p.s[p.i:p.i+40]!r}")
    return v


def parse_state(text):
    """'/\\ a = 1\n/\\ b = <<>>'  ->  {'a': 1, 'b': []}"""
    out = {}
    parts = re.split(r"(?:^|\n)\s*/\\ ", text)
    for part in parts:
        part = part.strip()
        if not part:
            continue
        k, _, v = part.partition(" = ")
        out[k.strip()] = parse_value(v.strip())
    return out


_NODE = re.compile(r'^(-?\d+) \[label="((?:[^"\\]|\\.)*)"(,style = filled)?[,\]]')
_EDGE = re.compile(r'^(-?\d+) -> (-?\d+) \[label="((?:[^"\\]|\\.)*)"')


def _unescape(s):
    return s.replace("\\\\", "\x00").replace('\\"', '"').replace("\\n", "\n").replace("\x00", "\\")


class Graph:
    def __init__(self):
        self.state_text = {}
        self.init = []
        self.out = {}      # node -> list of (action, dst)
        self.nedges = 0
        self._cache = {}

    def state(self, n):
        s = self._cache.get(n)
        if s is None:
            s = parse_state(self.state_text[n])
            if len(self._cache) < 500000:
                self._cache[n] = s
        return s


def load_dot(path):
    g = Graph()
    seen = set()
    with open(path) as f:
        for line in f:
            m = _EDGE.match(line)
            if m:
                u, v, a = m.group(1), m.group(2), m.group(3)
                key = (u, v, a)
                if key in seen:
                    continue
                seen.add(key)
                g.out.setdefault(u, []).append((a, v))
                g.nedges += 1
                continue
            m = _NODE.match(line)
            if m:
                n = m.group(1)
                if n not in g.state_text:
                    g.state_text[n] = _unescape(m.group(2))
                    if m.group(3):
                        g.init.append(n)
    for n in g.state_text:
        g.out.setdefault(n, [])
    return g


def edge_cover(g, is_terminal=None, max_paths=None, rng=None):
    """Return a list of paths [(node0), (action, node1), ...] from initial states such that every edge of g
    lies on at least one path, and every path ends in a terminal node (no successors other than itself, or
    is_terminal(state) true) whenever one is reachable."""
    # shortest path tree from the initial states
    parent = {}
    dq = deque()
    for n in g.init:
        parent[n] = None
        dq.append(n)
    while dq:
        u = dq.popleft()
        for a, v in g.out[u]:
            if v not in parent:
                parent[v] = (u, a)
                dq.append(v)

    def term(n):
        outs = [v for _, v in g.out[n] if v != n]
        return not outs

    # next hop toward a terminal node (reverse BFS)
    rev = {}
    for u, es in g.out.items():
        for a, v in es:
            rev.setdefault(v, []).append((u, a))
    hop = {}
    dq = deque()
    for n in g.state_text:
        if term(n):
            hop[n] = None
            dq.append(n)
    while dq:
        v = dq.popleft()
        for u, a in rev.get(v, []):
            if u not in hop:
                hop[u] = (a, v)
                dq.append(u)

    covered = set()
    paths = []
    order = [(u, a, v) for u in g.out for a, v in g.out[u] if u in parent]
    if rng is not None:
        rng.shuffle(order)
    for (u, a, v) in order:
        if (u, a, v) in covered:
            continue
        # prefix
        pre = []
        x = u
        while parent[x] is not None:
            pu, pa = parent[x]
            pre.append((pa, x))
            x = pu
        path = [x] + list(reversed(pre))
        path.append((a, v))
        covered.add((u, a, v))
        cur = v
        steps = 0
        while not term(cur) and steps < 10000:
            steps += 1
            nxt = None
            for a2, v2 in g.out[cur]:
                if (cur, a2, v2) not in covered and v2 != cur and v2 in hop:
                    nxt = (a2, v2)
                    break
            if nxt is None:
                nxt = hop.get(cur)
                if nxt is None:
                    break
            covered.add((cur, nxt[0], nxt[1]))
            path.append(nxt)
            cur = nxt[1]
        # mark prefix edges as covered
        prev = path[0]
        for a3, n3 in path[1:]:
            covered.add((prev, a3, n3))
            prev = n3
        paths.append(path)
        if max_paths and len(paths) >= max_paths:
            break
    return paths, len(covered)
