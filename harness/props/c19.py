"""C19 - CLI listings show each packet once, in order, and never hang or crash."""
import json
import os
import re
import subprocess
import sys
import tempfile

from harness import core, defs

META = {"title": "CLI listings show each packet once, in order, and never hang or crash"}


APID0 = 1000          # packet j of a generated file has APID 1000 + j: a number no other field or value of these files takes


def make_file(dirn, n, name=None, tail=b"", period=None, datalen=2):
    """n packets; with `period`, packet k is byte-identical to packet k mod period (idle / retransmitted packets)"""
    path = os.path.join(dirn, name or f"pk{n}{'' if period is None else '-p%d' % period}.bin")
    with open(path, "wb") as f:
        for k in range(n):
            j = k if period is None else k % period
            f.write(defs.mk_packet((bytes([j, 0xAB]) * (datalen // 2 + 1))[:datalen], apid=APID0 + j, seq=j))
        f.write(tail)
    return path


def xtce_file(dirn):
    from lxml import etree
    d = defs.header_only_definition()
    # two data bytes so that the packets parse exactly
    from space_packet_parser.xtce import containers, definitions, encodings, parameter_types, parameters
    hp = defs.header_params()
    body = parameters.Parameter("BODY", parameter_types.IntegerParameterType("BODY_T", encodings.IntegerDataEncoding(16, "unsigned")))
    root = containers.SequenceContainer("CCSDSPacket", hp + [body])
    d = definitions.XtcePacketDefinition([root])
    path = os.path.join(dirn, "def.xml")
    d.date = "2024-01-01"
    with open(path, "wb") as f:
        f.write(etree.tostring(d.to_xml_tree()))
    return path


def run_cli(args, timeout=60):
    """The CLI in a child process (a hang is a verdict, not a stuck check). Returns (rc, output, timed_out)."""
    code = ("import sys; sys.path.insert(0, %r); import space_packet_parser, os; "
            "assert space_packet_parser.__file__.startswith(%r); from space_packet_parser.cli import spp; spp()" % (core.REPO, core.REPO))
    env = dict(os.environ, COLUMNS="200", NO_COLOR="1", TERM="dumb")

    def limit():
        import resource
        resource.setrlimit(resource.RLIMIT_AS, (4 << 30, 4 << 30))      # a runaway listing must die in the child, not take the machine down
    try:
        p = subprocess.run([sys.executable, "-c", code] + args, capture_output=True, text=True, timeout=timeout, env=env, preexec_fn=limit)
        return p.returncode, p.stdout + p.stderr, False
    except subprocess.TimeoutExpired as e:
        return None, (e.stdout or b"").decode("utf-8", "ignore") if isinstance(e.stdout, bytes) else (e.stdout or ""), True


def table_lines(out):
    """Every output line as its list of cell tokens, whatever the table style (box characters, colours and alignment are not part
    of the property): anything that is not a letter, digit, '.', '…', '-' or '_' separates tokens."""
    out = re.sub(r"\x1b\[[0-9;]*[A-Za-z]", "", out)
    return [re.findall(r"[A-Za-z0-9_.…-]+", line) for line in out.splitlines()]


def listing_rows(out, fields_of=None, lenfield=1):
    """Packet index per table row (-1 for the ellipsis row). A packet row is a line of 7 numeric cells; it is identified by its APID
    cell (1000 + j) and must show exactly the 7 header fields of that packet (compared as a multiset: column order is not fixed by
    the property). A row of 7 numbers that is no packet's header is reported as index -2."""
    rows = []
    for toks in table_lines(out):
        if toks and all(t in ("...", "…") for t in toks):
            rows.append(-1)
        elif len(toks) == 7 and all(re.fullmatch(r"\d+", t) for t in toks):
            ids = [int(t) - APID0 for t in toks if APID0 <= int(t) < APID0 + 64]
            if len(ids) == 1 and sorted(int(t) for t in toks) == sorted([0, 0, 0, APID0 + ids[0], 3, ids[0], lenfield]):
                rows.append(ids[0])
            else:
                rows.append(-2)
    return rows


def in_process(args):
    from click.testing import CliRunner
    from space_packet_parser.cli import spp
    r = CliRunner().invoke(spp, args, catch_exceptions=True)
    return r.exit_code, r.output, r.exception


def run(ctx):
    q = ctx.quick
    ctx.rule = ("Cli.tla: Rows(n) and Shown(n, i) for every n in 0..13 and every index -2..n+1 (TLC: EachOnce, Elided, ParseTotal, "
                "Terminates); every exported case is replayed: files of n packets with distinct APIDs through `spp describe-packets` and "
                "`spp parse --packet i` (click test runner and, for termination, a child process under a time limit); rows are parsed "
                "from the rendered table. Plus files ending in a truncated packet, an empty file, and the repository's own JPSS file. "
                "distinct = (command, n, index).")
    ctx.assumptions = ["rows are recognised as lines of 7 numeric cells whatever the table style; a row is identified by its APID cell (1000 + j, a "
                       "number no other field takes) and must show that packet's 7 header fields (any column order)",
                       "the parse command's rendering is free: of the file's APIDs exactly the requested packet's may appear in the output"]
    r = ctx.tlc_expect_ok("Cli", "Cli.cfg", coverage=True, tag="listing-and-index")
    ctx.require_actions(r, ["Frame", "RenderListing", "RenderParse"])
    rg = ctx.tlc_expect_ok("Cli", "Gen_Cli.cfg", workers=1, count=False, tag="export")
    cases = [json.loads(core.parse_printed(l)[1]) for l in rg.printed]
    if len(cases) < 150:
        raise core.MachineryError(f"export too small: {len(cases)}")
    ctx.exhaustive = True
    tmp = tempfile.mkdtemp(prefix="c19-", dir=ctx.work)
    xt = xtce_file(tmp)
    files = {}
    for c in cases:
        n = c["n"]
        if n not in files:
            files[n] = make_file(tmp, n)
        ctx.count((c["cmd"], n, c["idx"]))
        ctx.traces += 1
        if c["cmd"] == "describe":
            rc, out, exc = in_process(["describe-packets", files[n]])
            prob = None
            want = c["out"]["rows"]
            if rc != 0 or exc is not None:
                prob = f"exit code {rc}, exception {exc!r}"
            elif c["out"]["k"] == "no-packets":
                if listing_rows(out):
                    prob = f"empty file: rows in the output {out[:200]!r}"
            elif listing_rows(out) != want:
                prob = f"rows {listing_rows(out)} != specification {want}"
            else:
                # the same listing on files whose packets repeat: rows are positions, not distinct contents
                for period in (1, 3):
                    pf = make_file(tmp, n, period=period)
                    rc2, out2, exc2 = in_process(["describe-packets", pf])
                    want2 = [w if w < 0 else w % period for w in want]
                    if rc2 != 0 or exc2 is not None or listing_rows(out2) != want2:
                        prob = f"file of {n} packets repeating with period {period}: rows {listing_rows(out2)} != specification {want2} (exit {rc2})"
                        break
            if prob:
                ctx.violation("C19/describe-packets/" + ("rows" if "rows" in prob else "crash"), f"n={n}: {prob}", {"cmd": "describe", "n": n})
            elif n in (7, 11):
                ctx.sample({"cmd": "spp describe-packets", "n": n, "rows": want}, limit=2)
        else:
            i = c["idx"]
            rc, out, exc = in_process(["parse", files[n], xt, f"--packet={i}"])
            prob = None
            if rc != 0 or exc is not None or "Traceback" in out:
                prob = f"exit code {rc}, exception {exc!r}"
            elif c["out"]["k"] == "out-of-range":
                # a message (wording free) and none of the file's packets
                shown = sorted({int(t) - APID0 for toks in table_lines(out) for t in toks if re.fullmatch(r"\d+", t) and APID0 <= int(t) < APID0 + 64})
                if not out.strip() or shown:
                    prob = f"index {i} of {n}: expected an out-of-range message and no packet, got packets {shown}: {out[:160]!r}"
            else:
                # whatever the rendering: of the file's packets (APID 1000 + j), exactly packet i is shown
                m = sorted({int(t) - APID0 for toks in table_lines(out) for t in toks if re.fullmatch(r"\d+", t) and APID0 <= int(t) < APID0 + 64})
                if m != [i]:
                    prob = f"index {i} of {n}: shows packets {m} (by APID {APID0} + j), expected packet {i}"
            if prob:
                ctx.violation("C19/parse/" + ("crash" if "exception" in prob else "selection"), prob, {"cmd": "parse", "n": n, "idx": i})
    mixed_section(ctx, tmp)
    # ---- packets of every size are listed (data fields of 32 768, 40 000 and 65 536 bytes)
    for dl in (32768, 40000, 65536):
        path = make_file(tmp, 3, f"big{dl}.bin", datalen=dl)
        rc, out, to = run_cli(["describe-packets", path], timeout=120)       # child process: time and memory limited
        exc = "did not terminate within 120 s" if to else None
        ctx.traces += 1
        ctx.count(("describe-big", dl))
        if rc != 0 or exc is not None or listing_rows(out, lenfield=dl - 1) != [0, 1, 2]:
            ctx.violation("C19/describe-packets/large-packets", f"3 packets with {dl}-byte data fields: exit {rc}, rows {listing_rows(out, lenfield=dl - 1)}, "
                          f"expected [0, 1, 2]: {out[:200]!r}", {"cmd": "describe", "n": 3, "datalen": dl})
    # ---- the global switches (-q, -v, --log-level) concern logging; what the commands print as their result is the same
    for glob_ in (["-q"], ["-v"], ["--log-level", "ERROR"], ["-q", "-v"]):
        for n in (0, 3, 11):
            path = files.get(n) or make_file(tmp, n)
            if n in (0, 3):
                # logging is configured once per process: each switch gets a process of its own for the empty and the small file
                rc, out, to = run_cli(glob_ + ["describe-packets", path], timeout=120)
                exc = "did not terminate" if to else ("traceback" if "Traceback" in out else None)
            else:
                rc, out, exc = in_process(glob_ + ["describe-packets", path])
            want = list(range(n)) if n <= 10 else [0, 1, 2, 3, 4, -1, n - 5, n - 4, n - 3, n - 2, n - 1]
            ctx.traces += 1
            ctx.count(("global-switch", tuple(glob_), "describe", n))
            if rc != 0 or exc is not None or listing_rows(out) != want:
                ctx.violation("C19/global-switch/describe-packets", f"`spp {' '.join(glob_)} describe-packets` on {n} packets: exit {rc}, rows {listing_rows(out)}, "
                              f"expected {want}", {"cmd": "describe", "n": n, "global": glob_})
            if n:
                for i in (0, n - 1, n):
                    rc, out, exc = in_process(glob_ + ["parse", path, xt, f"--packet={i}"])
                    shown = sorted({int(t) - APID0 for toks in table_lines(out) for t in toks if re.fullmatch(r"\d+", t) and APID0 <= int(t) < APID0 + 64})
                    ctx.traces += 1
                    ctx.count(("global-switch", tuple(glob_), "parse", n, i))
                    if rc != 0 or exc is not None or shown != ([i] if i < n else []) or not out.strip():
                        ctx.violation("C19/global-switch/parse", f"`spp {' '.join(glob_)} parse --packet={i}` on {n} packets: exit {rc}, shows {shown}, "
                                      f"output {out[:100]!r}", {"cmd": "parse", "n": n, "idx": i, "global": glob_})
    # ---- Shown(n, i) beyond the display limits: files longer than --max-items (default 20), and small explicit limits; the limits
    # shorten what is printed of a packet or of a listing, never which packet an index selects
    for n, opts, idxs in ((30, [], (0, 19, 20, 21, 22, 29, 30, 31)), (45, [], (21, 44, 45)), (7, ["--max-items=4"], (0, 2, 3, 4, 5, 6, 7)),
                          (12, ["--max-items=5", "--max-string=2"], (0, 1, 4, 5, 6, 11, 12)), (25, ["--max-items=40"], (0, 24, 25))):
        path = make_file(tmp, n, f"large{n}-{len(opts)}.bin")
        for i in idxs:
            rc, out, exc = in_process(["parse", path, xt, f"--packet={i}"] + opts)
            ctx.traces += 1
            ctx.count(("parse-limits", n, i, tuple(opts)))
            shown = sorted({int(t) - APID0 for toks in table_lines(out) for t in toks if re.fullmatch(r"\d+", t) and APID0 <= int(t) < APID0 + 64})
            prob = None
            if rc != 0 or exc is not None or "Traceback" in out:
                prob = f"exit code {rc}, exception {exc!r}"
            elif 0 <= i < n and shown != [i]:
                prob = f"shows packets {shown}, expected packet {i}: {out[:120]!r}"
            elif not (0 <= i < n) and (shown or not out.strip()):
                prob = f"expected an out-of-range message and no packet, got packets {shown}"
            if prob:
                ctx.violation("C19/parse-limits/" + ("crash" if "exception" in prob else "selection"), f"file of {n} packets, {' '.join(opts) or 'default limits'}, "
                              f"index {i}: {prob}", {"cmd": "parse-limits", "n": n, "idx": i, "opts": opts})
    # ---- termination and robustness on files that do not end on a packet boundary / are empty (child process, time limit)
    extra = [("empty", make_file(tmp, 0, "empty.bin")), ("truncated-header", make_file(tmp, 3, "th.bin", b"\x08\x64\xc0")),
             ("truncated-body", make_file(tmp, 3, "tb.bin", defs.mk_packet(bytes(20), apid=7)[:12])),
             ("garbage", make_file(tmp, 0, "g.bin", bytes(range(5)))),
             # well-framed packets whose data field is shorter / longer than the definition consumes: shown (with a warning), no traceback
             ("short-data-field", make_file(tmp, 3, "short.bin", datalen=1)), ("long-data-field", make_file(tmp, 3, "long.bin", datalen=5))]
    hung = set()
    for label, path in extra:
        for args in (["describe-packets", path], ["parse", path, xt], ["parse", path, xt, "--packet=0"]):
            if (label, args[0]) in hung:
                continue            # this command already failed to terminate on this file: one report is enough
            rc, out, to = run_cli(args, timeout=180)
            if to:
                hung.add((label, args[0]))
            ctx.traces += 1
            ctx.count((label, tuple(args[:1])))
            if to:
                ctx.violation("C19/hang", f"`spp {' '.join(args[:1])}` did not terminate within 180 s on a file that is {label}", {"file": label, "args": args[:1]})
            elif rc != 0 or "Traceback" in out:
                ctx.violation("C19/crash", f"`spp {args[0]}` on a {label} file: exit {rc}: {out[-300:]!r}", {"file": label, "args": args[:1]})
    # ---- the repository's own invocation: 7200 JPSS packets -> first five, ellipsis, last five
    jp = "/repo/tests/test_data/jpss/J01_G011_LZ_2021-04-09T00-00-00Z_V01.DAT1"
    if os.path.exists(jp):
        rc, out, exc = in_process(["describe-packets", jp])
        rows = [toks for toks in table_lines(out) if (len(toks) == 7 and all(re.fullmatch(r"\d+", t) for t in toks)) or
                (toks and all(t in ("...", "…") for t in toks))]
        # the file framed by the harness itself: header fields of the first five and the last five packets
        raw = open(jp, "rb").read()
        hdrs, off = [], 0
        while off + 6 <= len(raw):
            w0, w1, ln = int.from_bytes(raw[off:off + 2], "big"), int.from_bytes(raw[off + 2:off + 4], "big"), int.from_bytes(raw[off + 4:off + 6], "big")
            if off + 7 + ln > len(raw):
                break
            hdrs.append(sorted([w0 >> 13, (w0 >> 12) & 1, (w0 >> 11) & 1, w0 & 0x7FF, w1 >> 14, w1 & 0x3FFF, ln]))
            off += 7 + ln
        want = [h for h in hdrs[:5]] + [None] + [h for h in hdrs[-5:]]
        got = [None if all(t in ("...", "…") for t in r_) else sorted(int(t) for t in r_) for r_ in rows]
        ctx.traces += 1
        ctx.count(("jpss",))
        if rc != 0 or exc is not None or len(hdrs) <= 10 or got != want:
            ctx.violation("C19/describe-packets/jpss", f"JPSS listing ({len(hdrs)} packets): exit {rc}, rows {rows[:12]}; expected header fields {want}", {"file": jp})
        ctx.extra["jpss_rows"] = len(rows)


def xtce_file_partly(dirn):
    """definition recognising only APIDs below 1500 (abstract header root with one restricted child)"""
    from lxml import etree
    from space_packet_parser.xtce import comparisons, containers, definitions, encodings, parameter_types, parameters
    body = parameters.Parameter("BODY", parameter_types.IntegerParameterType("BODY_T", encodings.IntegerDataEncoding(16, "unsigned")))
    child = containers.SequenceContainer("KNOWN", [body], base_container_name="CCSDSPacket",
                                         restriction_criteria=[comparisons.Comparison("1500", "PKT_APID", "<")])
    root = containers.SequenceContainer("CCSDSPacket", defs.header_params(), abstract=True, inheritors=["KNOWN"])
    d = definitions.XtcePacketDefinition([root, child])
    d.date = "2024-01-01"
    path = os.path.join(dirn, "def-partly.xml")
    with open(path, "wb") as f:
        f.write(etree.tostring(d.to_xml_tree()))
    return path


def mixed_section(ctx, tmp):
    """Files in which every second packet is of an APID the definition does not recognise: `spp parse` decodes m < n packets. Index 0 shows
    packet 0, indices outside 0..n-1 get the out-of-range message, indices in between show at most one packet or a message - and no index
    ends in a traceback."""
    xt2 = xtce_file_partly(tmp)
    # (the same files with the roles swapped - the FIRST packet is an unrecognised one - must not end in a traceback either)
    for n in (1, 2, 5):
        path = os.path.join(tmp, f"mixed-first-unrecognised{n}.bin")
        with open(path, "wb") as f:
            for j in range(n):
                f.write(defs.mk_packet(bytes([j, 0xAB]), apid=(APID0 + j) if j % 2 == 1 else 1500 + j, seq=j))
        for args in (["parse", path, xt2], ["parse", path, xt2, "--packet=0"], ["parse", path, xt2, f"--packet={n}"]):
            rc, out, exc = in_process(args)
            ctx.traces += 1
            ctx.count(("parse-mixed-first-unrecognised", n, tuple(args[3:])))
            if rc != 0 or exc is not None or "Traceback" in out:
                ctx.violation("C19/parse-mixed/crash", f"file of {n} packets starting with an unrecognised one, spp {' '.join(args[:1] + args[3:])}: exit {rc}, "
                              f"exception {exc!r}", {"cmd": "parse-mixed", "n": n, "first": "unrecognised", "args": args[3:]})
    for n in (1, 2, 5, 6, 11):
        path = os.path.join(tmp, f"mixed{n}.bin")
        with open(path, "wb") as f:
            for j in range(n):
                f.write(defs.mk_packet(bytes([j, 0xAB]), apid=(APID0 + j) if j % 2 == 0 else 1500 + j, seq=j))
        m = (n + 1) // 2
        for i in range(-1, n + 2):
            rc, out, exc = in_process(["parse", path, xt2, f"--packet={i}"])
            ctx.traces += 1
            ctx.count(("parse-mixed", n, i))
            shown = sorted({int(t) - APID0 for toks in table_lines(out) for t in toks if re.fullmatch(r"\d+", t) and APID0 <= int(t) < APID0 + 64})
            prob = None
            if rc != 0 or exc is not None or "Traceback" in out:
                prob = f"exit code {rc}, exception {exc!r}"
            elif i == 0 and shown != [0]:
                prob = f"shows packets {shown}, expected packet 0"
            elif (i < 0 or i >= n) and (shown or not out.strip()):
                prob = f"expected an out-of-range message and no packet, got packets {shown}: {out[:120]!r}"
            elif len(shown) > 1 or not out.strip():
                # indices between the decoded and the framed count: whether they count decoded or framed packets is not fixed by the
                # property; at most one packet, or a message - and never a traceback
                prob = f"shows packets {shown}: {out[:120]!r}"
            if prob:
                ctx.violation("C19/parse-mixed/" + ("crash" if "exception" in prob else "selection"),
                              f"file of {n} packets of which {m} are recognised, index {i}: {prob}", {"cmd": "parse-mixed", "n": n, "idx": i})


def replay(ctx, obj):
    print("C19 replays by re-running the check; case:", obj)
