"""C11 - packets are parsed independently; generators and definitions do not interfere."""
import io
import itertools
import json
import os
import warnings

from harness import core, crit, defs, xdoc
from harness.props import decode_common as dc
from harness.props.c14 import HDR, binp, dyn, uint
from harness.tlaval import edge_cover, load_dot

META = {"title": "Packets are parsed independently; generators and definitions do not interfere"}


def cmp(ref, op, n):
    return {"k": "cmp", "ref": ref, "op": op, "cal": True, "lit": crit.lit_num(False, n)}


def definition():
    d = xdoc.new_defn("ROOT")
    for nm, w in HDR:
        xdoc.add_param(d, nm, uint(w))
    for nm, w in (("A", 8), ("B", 8), ("M", 4), ("N", 12)):
        xdoc.add_param(d, nm, uint(w))
    xdoc.add_param(d, "REST", binp(dyn("PLEN", True, 8, 8)))
    xdoc.add_container(d, "ROOT", [("p", nm) for nm, _ in HDR], abstract=True)
    # BC: two overlapping context calibrators (the specific one first, a general fallback second) - which one applies is a function of
    # the packet alone, whatever the definition decoded before
    from harness.calib import rat
    from harness.props.c08 import poly
    bc = xdoc.ptype_num("int", xdoc.numeric_enc("int", 8), {"default": {"k": "none"}, "context": [
        {"crit": [cmp("A", "==", 1)], "cal": poly([(rat(100), 0), (rat(1), 1)])},
        {"crit": [cmp("A", "<=", 2)], "cal": poly([(rat(5), 0), (rat(1, 2), 1)])}]})
    xdoc.add_param(d, "BC", bc)
    xdoc.add_container(d, "FIX", [("p", "A"), ("p", "BC")], base="ROOT", crit_list=[cmp("APID", "==", 1)])
    xdoc.add_container(d, "VAR", [("p", "REST")], base="ROOT", crit_list=[cmp("APID", "==", 2)])
    # APID 5: recognised only when the selector field is 0 (abstract intermediate container): the same APID is sometimes
    # recognised and sometimes not
    xdoc.add_param(d, "SELF", uint(8))
    xdoc.add_container(d, "SELC", [("p", "SELF")], base="ROOT", crit_list=[cmp("APID", "==", 5)], abstract=True)
    xdoc.add_container(d, "SELOK", [("p", "B")], base="SELC", crit_list=[cmp("SELF", "==", 0)])
    # APID 6: a child selected by a boolean expression that compares a float-calibrated parameter (and a boolean one) with literals
    fc = xdoc.ptype_num("int", xdoc.numeric_enc("int", 8), {"default": poly([(rat(1, 2), 0), (rat(1, 2), 1)]), "context": []})
    xdoc.add_param(d, "FC", fc)
    xdoc.add_param(d, "FLAG", xdoc.ptype_num("bool", xdoc.numeric_enc("int", 8)))
    xdoc.add_container(d, "CALC", [("p", "FC"), ("p", "FLAG")], base="ROOT", crit_list=[cmp("APID", "==", 6)])
    lit = lambda l, op, n: {"k": "cond", "l": l, "lcal": True, "op": op, "rk": "lit", "r": "", "rcal": False, "lit": crit.lit_num(False, n)}
    xdoc.add_container(d, "CALCHI", [("p", "A")], base="CALC", crit_list=[{"k": "and", "conds": [lit("FC", ">=", 2), lit("FLAG", "==", 1)], "groups": []}])
    xdoc.add_container(d, "AMB1", [("p", "M"), ("p", "N")], base="ROOT", crit_list=[cmp("APID", "==", 3)])
    xdoc.add_container(d, "AMB2", [("p", "A")], base="ROOT", crit_list=[cmp("APID", ">=", 3), cmp("APID", "<", 5)])
    return d


CLASSES = {"sel_ok": (5, "sel0"), "sel_unrec": (5, "sel1"), "exact": (1, 2), "inexact_long": (1, 3), "inexact_short": (1, 1), "var": (2, None), "ambiguous": (3, 2), "only_amb2": (4, 1),
           "deadend": (9, 2), "calc": (6, 3)}


def make_pool(rng, per_class):
    pool = []
    seq = 0
    for cname, (apid, n) in CLASSES.items():
        for _ in range(per_class):
            seq += 1
            if isinstance(n, str):
                body = bytes([0 if n == "sel0" else rng.randint(1, 255), rng.getrandbits(8)])
                pool.append({"cls": cname, "bytes": list(defs.mk_packet(body, apid=apid, seq=seq))})
                continue
            n_ = n if n is not None else rng.randint(1, 9)
            body = bytearray(rng.getrandbits(8) for _ in range(n_))
            if apid == 1:
                body[0] = (2, 1, 0, 1, 7, 2, 1, 3)[len(pool) % 8]      # A: fallback calibrator only / both / none
            if apid == 6:
                body[0], body[1] = (9, 1, 3, 200)[len(pool) % 4], (1, 1, 0, 1)[len(pool) % 4]
            pool.append({"cls": cname, "bytes": list(defs.mk_packet(bytes(body), apid=apid, seq=seq))})
    return pool


def typed_items(d, src):
    return [xdoc.typed_item(d, k, v) for k, v in src.items()]


def nwarn(ws):
    return core.flag_warnings(ws)


def model_warns(gg, singles, lo, hi):
    """length-mismatch warnings the model expects while processing stream packets lo..hi (1-based, inclusive)"""
    if gg["opts"]["hdr_only"]:
        return 0
    return sum(1 for p in gg["stream"][lo - 1:hi] if singles[p["pid"]]["status"] == "ok" and not singles[p["pid"]]["exact"])


def check_item(ctx, d, item, warns, exp, stream, singles, case_ref):
    """Compare one yielded item with the model's expectation (id, kind) and with the single-packet parse."""
    from space_packet_parser import packets
    from space_packet_parser.exceptions import UnrecognizedPacketTypeError
    pk = stream[exp["id"] - 1]
    kind = exp["kind"]
    if kind == "yield_raw":
        ok = isinstance(item, packets.RawPacketData) and bytes(item) == bytes(pk["bytes"])
        return None if ok else f"headers-only item is {type(item).__name__} / wrong bytes"
    if kind == "unrec_yield":
        if not isinstance(item, UnrecognizedPacketTypeError):
            return f"expected an UnrecognizedPacketTypeError object for packet {exp['id']}, got {type(item).__name__}"
        pd = item.partial_data
        if pd is None or bytes(pd.raw_data) != bytes(pk["bytes"]):
            return "error object does not carry this packet's partial data"
        if typed_items(d, pd) != singles[pk["pid"]]["items"]:
            return "partial data differs from parsing the packet on its own"
        return None
    if not isinstance(item, packets.CCSDSPacket):
        return f"expected a parsed packet for packet {exp['id']}, got {type(item).__name__}"
    if bytes(item.raw_data) != bytes(pk["bytes"]):
        return f"yielded packet is not stream packet {exp['id']}"
    if typed_items(d, item) != singles[pk["pid"]]["items"]:
        return "items differ from parsing the packet on its own"
    return None


def run(ctx):
    q = ctx.quick
    rng = ctx.rng
    ctx.rule = ("Generator.tla: 2-3 generators over one definition, streams of <= 3 packets drawn from {exact, too long, too short, "
                "variable-length, ambiguous, dead-end} x the 8 option combinations, ALL interleavings of next() calls (TLC BFS; invariants "
                "OutEqualsPerPacket, DoneMeansAll, action property NoCrossTalk). Per-packet end states come from the Decode walk (TLC). "
                "A: an edge cover of the dumped state graph is replayed on real generator objects sharing one definition (every next() "
                "result compared with the model and with the single-packet parse; definition XML compared before/after). B: random "
                "streams of 20-60 packets over 2-4 generators with random schedules validated by Trace_Generator. "
                "Raw packets taken from the framer, a headers-only generator and yielded items are each "
                "parsed on their own twice and compared with the single-packet result. distinct = (streams, options, schedule).")
    ctx.assumptions = ["packets whose decoding raises (other than unrecognized) end the generator: not used in streams (outside C11)"]
    d = definition()
    pool = make_pool(rng, 3 if q else 8)
    for i, p in enumerate(pool):
        p["pid"] = i
    # per-packet end states (model) and single-packet parses (real), via the Decode walk
    col = []
    dc.run_groups(ctx, "C11", [{"defn": d, "pkts": [p["bytes"] for p in pool], "route": ("xml", "prefix", False, False), "label": "pool"}],
                  "pool", jobs=1, gen_level=True, collect=col)
    if ctx.violations:
        return
    singles = {}
    for ln, pi, status, exact in col:
        singles[pi] = {"status": status, "exact": bool(exact), "items": ln["obs"][pi]["items"]}
    ctx.extra["pool_classes"] = {c: [singles[p["pid"]]["status"] + ("" if singles[p["pid"]]["status"] != "ok" else ("/exact" if singles[p["pid"]]["exact"] else "/inexact"))
                                     for p in pool if p["cls"] == c][0] for c in CLASSES}
    dobj = xdoc.load(d)
    from lxml import etree
    xml_before = etree.tostring(dobj.to_xml_tree())
    proj_before = repr(sorted(dobj.containers)) + repr([c.inheritors for c in dobj.containers.values()])

    # packets whose decoding the specification does not decide (out-of-bounds reads: C14) are not used in streams
    pool = [p for p in pool if singles[p["pid"]]["status"] in ("ok", "unrec")]
    by_cls = {}
    for p in pool:
        by_cls.setdefault(p["cls"], []).append(p)
    STREAM_CLASSES = list(by_cls)
    OPTS = [{"parse_bad": a, "yield_unrec": b, "hdr_only": c} for a in (True, False) for b in (True, False) for c in (False, True)]

    def mk_case(ngen, maxlen):
        gens = []
        for _ in range(ngen):
            n = rng.randint(0, maxlen)
            stream = [rng.choice(by_cls[rng.choice(STREAM_CLASSES)]) for _ in range(n)]
            gens.append({"opts": rng.choice(OPTS), "stream": stream})
        return gens

    def case_json(gens, ev=None):
        c = {"gens": [{"opts": g["opts"], "pk": [{"status": singles[p["pid"]]["status"], "exact": singles[p["pid"]]["exact"]} for p in g["stream"]]}
                      for g in gens]}
        c["ev"] = ev or []
        return c

    # ---- model checking of all interleavings + A: edge-cover replay
    cases = [mk_case(2, 3) for _ in range(30 if q else 150)] + [mk_case(3, 2) for _ in range(10 if q else 60)]
    # every option combination on a stream containing every class
    allcls = [by_cls[c][0] for c in STREAM_CLASSES]
    for o in OPTS:
        cases.append([{"opts": o, "stream": allcls[:3]}, {"opts": OPTS[0], "stream": allcls[3:]}])
    path = os.path.join(ctx.work, "gen-cases.ndjson")
    core.write_ndjson(path, [case_json(g) for g in cases])
    dump = os.path.join(ctx.work, "gen-graph")
    r = ctx.tlc_expect_ok("Generator", "MC_Generator.cfg", env={"TRACE_FILE": path}, dump=dump, coverage=True, tag="interleavings", workers=8)
    ctx.require_actions(r, [])
    g = load_dot(dump + ".dot")
    paths, ncov = edge_cover(g, rng=rng)
    ctx.extra["graph"] = {"nodes": len(g.state_text), "edges": g.nedges, "edges_covered": ncov, "paths": len(paths)}
    if ncov < g.nedges:
        raise core.MachineryError("edge cover incomplete")
    os.unlink(dump + ".dot")
    nitems = 0
    for path_ in paths:
        s0 = g.state(path_[0])
        case = cases[s0["cid"] - 1]
        gens = []
        for gg in case:
            data = b"".join(bytes(p["bytes"]) for p in gg["stream"])
            src = data if rng.random() < 0.5 else io.BytesIO(data)
            gens.append(dobj.packet_generator(src, parse_bad_pkts=gg["opts"]["parse_bad"], yield_unrecognized_packet_errors=gg["opts"]["yield_unrec"],
                                              ccsds_headers_only=gg["opts"]["hdr_only"]))
        prev = s0
        sched = []
        prob = None
        for a, n in path_[1:]:
            st = g.state(n)
            gi = next(i for i in range(len(case)) if _fn(st["idx"], i) != _fn(prev["idx"], i) or _fn(st["done"], i) != _fn(prev["done"], i))
            sched.append(gi)
            with warnings.catch_warnings(record=True) as w:
                warnings.simplefilter("always")
                try:
                    item = next(gens[gi])
                    got = "item"
                except StopIteration:
                    got = "stop"
                except Exception as e:  # noqa: BLE001
                    got = f"raise:{type(e).__name__}"
            grew = len(_fn(st["out"], gi)) > len(_fn(prev["out"], gi))
            wexp = model_warns(case[gi], singles, _fn(prev["idx"], gi), _fn(st["idx"], gi) - 1)
            if grew:
                exp = _fn(st["out"], gi)[-1]
                if got != "item":
                    prob = f"next() on generator {gi} gave {got}; model yields packet {exp['id']} as {exp['kind']}"
                else:
                    prob = check_item(ctx, d, item, w, exp, case[gi]["stream"], singles, None)
                    nitems += 1
            elif got != "stop":
                prob = f"next() on generator {gi} gave {got}; model: StopIteration"
            if not prob and nwarn(w) != wexp:
                prob = f"length-mismatch warnings during this next(): {nwarn(w)}; model: {wexp}"
            if prob:
                break
            prev = st
        ctx.traces += 1
        ctx.count(("A", json.dumps([[p["pid"] for p in gg["stream"]] for gg in case]), json.dumps([gg["opts"] for gg in case]), tuple(sched)))
        if prob:
            ctx.violation("C11/replay/" + prob.split(";")[0][:40].replace(" ", "-"), prob,
                          {"streams": [[p["bytes"] for p in gg["stream"]] for gg in case], "opts": [gg["opts"] for gg in case], "schedule": sched})
        elif len(sched) > 4:
            ctx.sample({"direction": "spec->code", "streams": [[p["cls"] for p in gg["stream"]] for gg in case], "opts": [gg["opts"] for gg in case],
                        "schedule": sched}, limit=2)
    ctx.extra["A_items_compared"] = nitems

    # ---- B: random long streams, random schedules, validated by Trace_Generator
    recs = []
    for t in range(25 if q else 300):
        case = []
        for _ in range(rng.randint(2, 4)):
            case.append({"opts": rng.choice(OPTS), "stream": [rng.choice(pool) for _ in range(rng.randint(20, 60))]})
        gens = []
        for gg in case:
            data = b"".join(bytes(p["bytes"]) for p in gg["stream"])
            gens.append(dobj.packet_generator(io.BytesIO(data), parse_bad_pkts=gg["opts"]["parse_bad"],
                                              yield_unrecognized_packet_errors=gg["opts"]["yield_unrec"], ccsds_headers_only=gg["opts"]["hdr_only"],
                                              buffer_read_size_bytes=rng.choice([None, 7, 64])))
        live = list(range(len(gens)))
        ev = []
        pos = [0] * len(gens)
        while live:
            gi = rng.choice(live)
            with warnings.catch_warnings(record=True) as w:
                warnings.simplefilter("always")
                try:
                    item = next(gens[gi])
                except StopIteration:
                    ev.append({"g": gi + 1, "res": "stop", "id": 0, "ty": "", "nwarn": nwarn(w)})
                    live.remove(gi)
                    continue
                except Exception as e:  # noqa: BLE001
                    ctx.violation("C11/trace/exception", f"{type(e).__name__}: {e}", {"opts": [gg["opts"] for gg in case]})
                    live.remove(gi)
                    continue
            # identify the packet by its bytes, searching forward from the last position of this generator
            from space_packet_parser import packets as _p
            from space_packet_parser.exceptions import UnrecognizedPacketTypeError as _U
            raw = bytes(item) if isinstance(item, _p.RawPacketData) else bytes(item.partial_data.raw_data) if isinstance(item, _U) else bytes(item.raw_data)
            st_ = case[gi]["stream"]
            j = next((k for k in range(pos[gi], len(st_)) if bytes(st_[k]["bytes"]) == raw), None)
            if j is None:
                ctx.violation("C11/trace/unknown-item", "yielded item is not a later packet of this generator's stream", {"opts": [gg["opts"] for gg in case]})
                break
            pos[gi] = j + 1
            kind = "raw" if isinstance(item, _p.RawPacketData) else "err" if isinstance(item, _U) else "pkt"
            if kind == "pkt" and typed_items(d, item) != singles[st_[j]["pid"]]["items"]:
                ctx.violation("C11/trace/items-differ-from-single-parse", f"packet {j + 1} of generator {gi}", {"opts": [gg["opts"] for gg in case]})
            ev.append({"g": gi + 1, "res": "item", "id": j + 1, "ty": kind, "nwarn": nwarn(w)})
        recs.append((case, ev))
    tpath = os.path.join(ctx.work, "gen-trace.ndjson")
    core.write_ndjson(tpath, [case_json(c, ev) for c, ev in recs])
    rt = ctx.tlc_expect_ok("Trace_Generator", "Trace_Generator.cfg", workers=1, env={"TRACE_FILE": tpath}, tag="trace-random")
    verd = {}
    for line in rt.printed:
        v = core.parse_printed(line)
        verd[v[1]] = v
    if len(verd) != len(recs):
        raise core.MachineryError(f"Trace_Generator verdicts {len(verd)} != {len(recs)}")
    for i, (case, ev) in enumerate(recs, 1):
        ctx.traces += 1
        ctx.count(("B", i, len(ev)))
        if verd[i][0] != "ACCEPT":
            ctx.violation("C11/trace/rejected", f"event {verd[i][2]} {verd[i][3]} not allowed by the model; model out {verd[i][4][:300]}",
                          {"streams": [[p["bytes"] for p in gg["stream"]] for gg in case], "opts": [gg["opts"] for gg in case], "events": ev})
    # ---- segment combining across interleaved generators (Segments o Decode o Generator): the per-APID segment table
    # must belong to one generator; a generator suspended in the middle of a group must not see another one's segments
    seg_section(ctx, d, dobj, rng, q)
    reparse_section(ctx, d, dobj, pool, singles)

    # ---- parsing never modifies the definition
    xml_after = etree.tostring(dobj.to_xml_tree())
    proj_after = repr(sorted(dobj.containers)) + repr([c.inheritors for c in dobj.containers.values()])
    if xml_before != xml_after or proj_before != proj_after:
        ctx.violation("C11/definition-modified", "the definition's XML / inheritor lists changed while parsing", {})
    ctx.exhaustive = True
    ctx.sample({"direction": "code->spec", "generators": len(recs[0][0]), "events": recs[0][1][:10]}, limit=4)


def reparse_section(ctx, d, dobj, pool, singles):
    """'Parsing each packet on its own' is repeatable and does not depend on where the raw packet came from: the raw packet objects
    handed out by the framer, by a headers-only generator and inside yielded packets / error objects are each parsed on their own,
    twice, and must give the single-packet result both times (an earlier parse or generator must not leave anything behind in them)."""
    import warnings
    from space_packet_parser import packets
    from space_packet_parser.exceptions import UnrecognizedPacketTypeError
    n = 0
    stream = b"".join(bytes(p["bytes"]) for p in pool)
    with warnings.catch_warnings():
        warnings.simplefilter("ignore")
        origins = {
            "framer": list(packets.ccsds_generator(stream)),
            "headers-only generator": [(it if isinstance(it, packets.RawPacketData) else it.raw_data)
                                       for it in dobj.packet_generator(stream, ccsds_headers_only=True, root_container_name="ROOT")],
            "yielded items": [(it.partial_data.raw_data if isinstance(it, UnrecognizedPacketTypeError) else it.raw_data)
                              for it in dobj.packet_generator(stream, yield_unrecognized_packet_errors=True, root_container_name="ROOT")],
        }
        for origin, raws in origins.items():
            if len(raws) != len(pool):
                ctx.violation("C11/reparse/count", f"{origin}: {len(raws)} raw packets for a stream of {len(pool)}", {"origin": origin})
                continue
            for p, raw in zip(pool, raws):
                want = singles[p["pid"]]
                for rep in (1, 2):
                    pk = packets.CCSDSPacket(raw_data=raw)
                    try:
                        dobj.parse_ccsds_packet(pk, root_container_name="ROOT")
                        got, items = "ok", typed_items(d, pk)
                    except UnrecognizedPacketTypeError as e:
                        got, items = "unrec", typed_items(d, e.partial_data or {})
                    except Exception as e:  # noqa: BLE001
                        got, items = f"raised {type(e).__name__}", []
                    n += 1
                    ctx.count(("reparse", origin, p["pid"], rep))
                    if got != want["status"] or items != want["items"]:
                        ctx.violation(f"C11/reparse/{origin.split()[0]}/parse-{rep}",
                                      f"raw packet from the {origin}, parse number {rep} on its own: {got} with {len(items)} items; the packet's "
                                      f"bytes parsed on their own give {want['status']} with {len(want['items'])} items",
                                      {"origin": origin, "packet": p["bytes"], "parse": rep})
                        break
    ctx.extra["raw_packet_reparses"] = n
    # a generator started with another root container leaves the definition's own root alone
    root_before = dobj.root_container_name
    with warnings.catch_warnings():
        warnings.simplefilter("ignore")
        try:
            for _ in dobj.packet_generator(stream, root_container_name="SELC", yield_unrecognized_packet_errors=True):
                pass
        except Exception:  # noqa: BLE001
            pass
        if dobj.root_container_name != root_before:
            ctx.violation("C11/definition-modified/root", f"a generator started with root_container_name='SELC' changed the definition's root from "
                          f"{root_before!r} to {dobj.root_container_name!r}", {"override": "SELC"})
        else:
            p0 = pool[0]
            pk = packets.CCSDSPacket(raw_data=bytes(p0["bytes"]))
            try:
                dobj.parse_ccsds_packet(pk)
                got, items = "ok", typed_items(d, pk)
            except UnrecognizedPacketTypeError as e:
                got, items = "unrec", typed_items(d, e.partial_data or {})
            except Exception as e:  # noqa: BLE001
                got, items = f"raised {type(e).__name__}", []
            if got != singles[p0["pid"]]["status"] or items != singles[p0["pid"]]["items"]:
                ctx.violation("C11/definition-modified/root", "after a generator with another root, parsing from the definition's own root gives another result",
                              {"override": "SELC"})


def seg_section(ctx, d, dobj, rng, q):
    from harness.props import c12
    OPT = {"parse_bad": True, "yield_unrec": False, "hdr_only": False}
    SEG_APID, K = 2, 0

    def mk_stream(seq0, gid):
        """FIRST .. LAST groups of APID 2 with unsegmented APID-1 packets inside the groups (so that next() returns mid-group)"""
        raw = []
        seq = seq0
        for _ in range(rng.randint(1, 3)):
            n = rng.randint(2, 4)
            for j in range(n):
                flag = 1 if j == 0 else (2 if j == n - 1 else 0)
                if rng.random() < 0.15 and j > 0:
                    seq = (seq + 3) % 16384          # a gap: the group must be rejected
                raw.append({"apid": SEG_APID, "flag": flag, "seq": seq, "bytes": defs.mk_packet(bytes([0xC0 | gid, len(raw), rng.getrandbits(8)]), apid=SEG_APID, flags=flag, seq=seq)})
                seq = (seq + 1) % 16384
                if j < n - 1 and rng.random() < 0.8:
                    raw.append({"apid": 1, "flag": 3, "seq": 0, "bytes": defs.mk_packet(bytes([gid, len(raw)]), apid=1, seq=len(raw))})
        return raw
    cases = []
    for t in range(12 if q else 120):
        cases.append([mk_stream(rng.choice([0, 16382, 77]), g) for g in range(2)])
    # model outputs of the reassembly (Segments.tla, via Trace_Segments with a placeholder observation)
    recs = []
    for ci, case in enumerate(cases):
        for gi, raw in enumerate(case):
            recs.append({"tid": len(recs) + 1, "pk": [[r["apid"], r["flag"], r["seq"]] for r in raw], "outs": [[0]], "gaps": 0, "nostarts": 0, "other": 0, "k": K})
    path = os.path.join(ctx.work, "c11-seg.ndjson")
    core.write_ndjson(path, recs)
    tcfg = c12.cfg(ctx, "c11-seg.cfg", None, 100000, [1, SEG_APID], [0], ["TraceInv"], init=("TraceInit", "TraceNext"))
    rt = ctx.tlc_expect_ok("Trace_Segments", tcfg, workers=1, env={"TRACE_FILE": path}, tag="segments-model-outputs", count=False)
    model = {}
    for line in rt.printed:
        v = core.parse_printed(line)
        model[v[1]] = json.loads(v[3])["model"]
    if len(model) != len(recs):
        raise core.MachineryError("segment model outputs missing")
    # effective packets per generator, their decode end states
    eff_cases = []
    pool, pool_idx = [], {}
    tid = 0
    for case in cases:
        gens = []
        for raw in case:
            tid += 1
            eff = []
            for ids in model[tid]:
                b = bytes(raw[ids[0] - 1]["bytes"])
                for i in ids[1:]:
                    b += bytes(raw[i - 1]["bytes"])[6 + K:]
                if b not in pool_idx:
                    pool_idx[b] = len(pool)
                    pool.append(list(b))
                eff.append(b)
            gens.append({"raw": raw, "eff": eff})
        eff_cases.append(gens)
    col = []
    dc.run_groups(ctx, "C11", [{"defn": d, "pkts": pool, "route": ("xml", "prefix", False, False), "label": "segment-pool"}], "segpool", jobs=4,
                  gen_level=False, collect=col)
    st = {}
    for ln, pi, status, exact in col:
        st[pi] = {"status": status, "exact": bool(exact), "items": ln["obs"][pi]["items"]}
    use = [(ci, g) for ci, g in enumerate(eff_cases) if all(st[pool_idx[b]]["status"] in ("ok", "unrec") for gg in g for b in gg["eff"])]
    gcases = [{"gens": [{"opts": OPT, "pk": [{"status": st[pool_idx[b]]["status"], "exact": st[pool_idx[b]]["exact"]} for b in gg["eff"]]} for gg in g], "ev": []}
              for ci, g in use]
    if not gcases:
        ctx.vacuity("no segmented case usable")
        return
    gpath = os.path.join(ctx.work, "c11-seg-gen.ndjson")
    core.write_ndjson(gpath, gcases)
    dump = os.path.join(ctx.work, "c11-seg-graph")
    ctx.tlc_expect_ok("Generator", "MC_Generator.cfg", env={"TRACE_FILE": gpath}, dump=dump, tag="segmented-interleavings", workers=8)
    g = load_dot(dump + ".dot")
    paths, ncov = edge_cover(g, rng=rng)
    os.unlink(dump + ".dot")
    ctx.extra["segmented_graph"] = {"nodes": len(g.state_text), "edges": g.nedges, "paths": len(paths)}
    ncomb = 0
    for path_ in paths:
        s0 = g.state(path_[0])
        ci, gens_ = use[s0["cid"] - 1]
        real = []
        with warnings.catch_warnings():
            warnings.simplefilter("ignore")
            for gg in gens_:
                data = b"".join(bytes(r["bytes"]) for r in gg["raw"])
                real.append(dobj.packet_generator(io.BytesIO(data), combine_segmented_packets=True, secondary_header_bytes=K))
        prev = s0
        sched = []
        prob = None
        for a, n in path_[1:]:
            stt = g.state(n)
            gi = next(i for i in range(len(gens_)) if _fn(stt["idx"], i) != _fn(prev["idx"], i) or _fn(stt["done"], i) != _fn(prev["done"], i))
            sched.append(gi)
            with warnings.catch_warnings():
                warnings.simplefilter("ignore")
                try:
                    item = next(real[gi])
                    got = "item"
                except StopIteration:
                    got = "stop"
                except Exception as e:  # noqa: BLE001
                    got = f"raise:{type(e).__name__}"
            grew = len(_fn(stt["out"], gi)) > len(_fn(prev["out"], gi))
            if grew:
                exp = _fn(stt["out"], gi)[-1]
                want = gens_[gi]["eff"][exp["id"] - 1]
                if got != "item":
                    prob = f"next() on generator {gi} gave {got}; model yields effective packet {exp['id']}"
                elif bytes(item.raw_data) != want:
                    prob = (f"generator {gi}: yielded raw data {bytes(item.raw_data).hex()} is not the reassembled packet the model expects "
                            f"({want.hex()}): segments of another generator or of a closed group were used")
                elif typed_items(d, item) != st[pool_idx[want]]["items"]:
                    prob = "items differ from parsing the reassembled packet on its own"
                if len(want) > 9:
                    ncomb += 1
            elif got != "stop":
                prob = f"next() on generator {gi} gave {got}; model: StopIteration"
            if prob:
                break
            prev = stt
        ctx.traces += 1
        ctx.count(("A-seg", ci, tuple(sched)))
        if prob:
            ctx.violation("C11/segmented/" + ("cross-talk" if "not the reassembled" in prob else "mismatch"), prob,
                          {"streams": [[list(r["bytes"]) for r in gg["raw"]] for gg in gens_], "schedule": sched})
    ctx.extra["segmented_items_compared"] = ncomb
    if ncomb == 0:
        ctx.vacuity("no combined packet was compared in the segmented section")


def _fn(v, i):
    """element i (0-based) of a TLC function/sequence value parsed from the dot dump"""
    if isinstance(v, list):
        return v[i]
    return v["__fn__"][i + 1]


def replay(ctx, obj):
    print("replay of C11 cases is by re-running the check with the same VERIF_SEED; case:", json.dumps(obj)[:500])
