"""C04 - integer and float fields decode correctly at every size, offset and byte order."""
import json
import os

from harness import core, tables, typed

META = {"title": "Integer and float fields decode correctly at every size, offset and byte order"}
ORD = {"msb": "mostSignificantByteFirst", "lsb": "leastSignificantByteFirst"}


def make_type(kind, w, enc, order, var=""):
    """var: '' plain; 'ctx' the encoding also declares context calibrators none of which applies to the packets used here
    (MODE is 0 in them) and no default calibrator: the field is still an uncalibrated one."""
    from space_packet_parser.xtce import calibrators, comparisons, encodings, parameter_types
    if var in ("xml", "xml-od"):
        # the type as a document declares it (XML reader; with explicit attributes, or relying on the reader's defaults)
        from harness import xdoc, xrender
        if kind == "int":
            pt = xdoc.ptype_num("int", xdoc.numeric_enc("int", w, enc, order))
        else:
            pt = xdoc.ptype_num("float", xdoc.numeric_enc("flt", w, order=order, fmt="mil1750a" if kind == "mil" else "ieee"))
        return xrender.type_from_xml("T", pt, var == "xml-od")
    kw = {}
    if var == "ctx":
        poly = calibrators.PolynomialCalibrator([calibrators.PolynomialCoefficient(7.0, 0), calibrators.PolynomialCoefficient(3.0, 1)])
        kw["context_calibrators"] = [calibrators.ContextCalibrator([comparisons.Comparison("1", "MODE", "==")], poly),
                                     calibrators.ContextCalibrator([comparisons.Comparison("0", "MODE", "<")], poly)]
    if kind == "int":
        # "twosCompliment" [sic] is the spelling of XTCE 1.1 that the constructor's documentation recommends for two's complement
        spelled = "twosCompliment" if var == "alias" and enc == "twosComplement" else enc
        return parameter_types.IntegerParameterType("T", encodings.IntegerDataEncoding(w, spelled, byte_order=ORD[order], **kw))
    name = "MILSTD_1750A" if kind == "mil" else enc
    if var == "alias":
        # the tolerated legacy spellings of the two float formats (accepted with a warning) mean the same formats
        name = "MIL-1750A" if kind == "mil" else "IEEE-754"
    import warnings
    with warnings.catch_warnings():
        warnings.simplefilter("ignore")
        return parameter_types.FloatParameterType("T", encodings.FloatDataEncoding(w, encoding=name, byte_order=ORD[order], **kw))


_TYPES = {}


def decode(kind, bits, enc, order, offset, rng=None, var=""):
    """Place the field bits at bit `offset` of a packet (random surrounding bits), decode with the real type."""
    from space_packet_parser import common, packets
    key = (kind, len(bits), enc, order, var)
    t = _TYPES.get(key)
    if t is None:
        t = _TYPES[key] = make_type(kind, len(bits), enc, order, var)
    pre = [rng.getrandbits(1) if rng else 1 for _ in range(offset)]
    total = offset + len(bits)
    post = [rng.getrandbits(1) if rng else 0 for _ in range((-total) % 8 + 8)]
    allb = pre + list(bits) + post
    buf = int("".join(map(str, allb)) or "0", 2).to_bytes(len(allb) // 8, "big")
    pkt = packets.CCSDSPacket(raw_data=buf)
    pkt["MODE"] = common.IntParameter(0)
    pkt.raw_data.pos = offset
    v = t.parse_value(pkt)
    return v, pkt.raw_data.pos - offset


def line_for(kind, bits, enc, order, offset, rng, var=""):
    v, adv = decode(kind, bits, enc, order, offset, rng, var)
    return {"var": var, "k": kind, "b": list(bits), "e": enc, "o": order, "r": typed.to_typed(v), "raw": typed.to_typed(v.raw_value),
            "c": typed.cls_name(v), "adv": adv, "off": offset}


def run(ctx):
    q = ctx.quick
    rng = ctx.rng
    ctx.rule = ("TLC: every bit pattern of every integer width 1..10 (3 encodings, both byte orders at width 8) and every binary16 "
                "pattern in both byte orders, bit-level decoders cross-checked against plain arithmetic / the IEEE class table; "
                "boundary patterns of widths 11..128, binary32/64 and MIL-1750A exported. A: every exported row decoded by the "
                "real ParameterType.parse_value at several bit offsets. B: random wide integers (1..128 bits), binary32/64 and "
                "1750A patterns at random offsets logged from the real decoder and re-evaluated by Trace_Numeric. "
                "A share of both sections uses encodings that also declare context calibrators none of which applies "
                "(still an uncalibrated field). One type object per layout decodes all its cases. distinct = (kind, bits, encoding, order, offset, variant).")
    ctx.assumptions = ["little-endian byte order is claimed for whole-byte widths only (as the property states)",
                       "NaN payloads are not compared (class only)",
                       "Python floats are binary64; binary16/32 and 1750A values convert exactly"]
    for m in ("int", "half", "wide"):
        ctx.tlc_expect_ok("MC_Numeric", f"MC_Numeric_{m}.cfg", tag="mc-" + m)
    ctx.exhaustive = True
    # ---- A: export tables and replay
    rows = []
    for m, maxw in (("int", 10 if not q else 9), ("half", 0), ("wide", 0)):
        cfg = os.path.join(ctx.work, f"gen-{m}.cfg")
        with open(cfg, "w") as f:
            f.write(f'SPECIFICATION MCSpec\nCONSTANTS\n  MaxW = {maxw}\n  Mode = "{m}"\nINVARIANT Export\nCHECK_DEADLOCK FALSE\n')
        rg = ctx.tlc_expect_ok("MC_Numeric", cfg, workers=1, count=False, tag="export-" + m)
        rows += [json.loads(core.parse_printed(l)[1]) for l in rg.printed]
    ctx.extra["A_rows"] = len(rows)
    if len(rows) < 100000:
        raise core.MachineryError(f"table export too small: {len(rows)}")
    offs_all = list(range(8))
    for i, row in enumerate(rows):
        kind, bits, enc, order, want = row["k"], row["b"], row["e"], row["o"], row["r"]
        if q and kind == "ieee" and len(bits) == 16 and i % 4:
            continue      # quick: a quarter of the binary16 patterns (all of them in the TLC run and in thorough)
        offsets = offs_all if (not q or len(bits) > 16 or i % 16 == 0) else [0, 1 + i % 7]
        # a field may sit exactly where a CCSDS header field sits (same offset, same width): it is still decoded from its bits
        hdr_off = {3: [0], 1: [3, 4], 11: [5], 2: [16], 14: [18], 16: [32, 16]}.get(len(bits), [])
        if hdr_off and kind == "int" and i % 3 == 0:
            offsets = list(offsets) + [o for o in hdr_off if o not in offsets]
        for off in offsets:
            var = "ctx" if (i + off) % 5 == 0 else ("alias" if (kind != "int" or enc == "twosComplement") and (i + off) % 5 == 1 else ("xml", "xml-od", "")[(i + off) % 5 - 2] if (i + off) % 5 >= 2 else "")
            ctx.count(("A", kind, tuple(bits), enc, order, off, var))
            ctx.traces += 1
            try:
                v, adv = decode(kind, bits, enc, order, off, rng, var)
                got = typed.to_typed(v)
                prob = None
                if not typed.same(got, want):
                    prob = f"value {v!r} ({got}) != specification {want}"
                elif typed.cls_name(v) != ("Int" if kind == "int" else "Float"):
                    prob = f"result class {type(v).__name__}"
                elif adv != len(bits):
                    prob = f"cursor advanced {adv}, width {len(bits)}"
                elif not typed.same(typed.to_typed(v.raw_value), want):
                    prob = f"raw_value {v.raw_value!r} != value"
            except Exception as e:  # noqa: BLE001
                prob = f"exception {type(e).__name__}: {e}"
            if prob:
                ctx.violation(f"C04/replay/{kind}/{enc}/{order}/{'aligned' if off == 0 else 'unaligned'}{('/inapplicable-context-calibrators' if var == 'ctx' else '/legacy-spelling' if var == 'alias' else '/' + var if var else '')}",
                              prob, {"k": kind, "b": bits, "e": enc, "o": order, "off": off, "var": var})
        if kind != "int" and row["r"]["cls"] == "fin" and len(bits) > 16:
            ctx.sample({"direction": "spec->code", "kind": kind, "bits": "".join(map(str, bits)), "order": order, "expected": want}, limit=3)
    # ---- B: random wide patterns
    lines = []
    N = 4000 if q else 80000
    for _ in range(N):
        r = rng.random()
        off = rng.randrange(8) if rng.random() < 0.8 else rng.randrange(64)
        if r < 0.5:
            w = rng.choice([1, 3, 7, 8, 9, 12, 15, 16, 17, 24, 31, 32, 33, 48, 63, 64, 65, 72, 128]) if rng.random() < 0.7 else rng.randint(1, 128)
            enc = rng.choice(["unsigned", "signed", "twosComplement"])
            order = rng.choice(["msb", "lsb"]) if w % 8 == 0 else "msb"
            kind = "int"
        elif r < 0.85:
            w = rng.choice([16, 32, 64])
            enc = rng.choice(["IEEE754", "IEEE754_1985"])
            order = rng.choice(["msb", "lsb"])
            kind = "ieee"
        else:
            w, enc, order, kind = 32, "MILSTD_1750A", rng.choice(["msb", "lsb"]), "mil"
        mode = rng.randrange(4)
        if mode == 0:
            bits = [rng.getrandbits(1) for _ in range(w)]
        elif mode == 1:      # sparse / dense patterns: extremes, subnormals, infinities, NaNs
            bits = [1 if rng.random() < 0.1 else 0 for _ in range(w)]
        elif mode == 2:
            bits = [0 if rng.random() < 0.1 else 1 for _ in range(w)]
        else:
            bits = [rng.getrandbits(1)] + [rng.choice([0, 1])] * (w - 1)
            if w > 12:
                for j in range(rng.randrange(4)):
                    bits[rng.randrange(w)] ^= 1
        var = "ctx" if rng.random() < 0.3 else ("alias" if (kind != "int" or enc == "twosComplement") and rng.random() < 0.3 else rng.choice(["", "xml", "xml-od"]))
        try:
            lines.append(line_for(kind, bits, enc, order, off, rng, var))
        except Exception as e:  # noqa: BLE001
            ctx.violation(f"C04/trace/exception/{kind}", f"{type(e).__name__}: {e}", {"k": kind, "b": bits, "e": enc, "o": order, "off": off, "var": var})
    for ln in lines:
        ctx.count(("B", ln["k"], tuple(ln["b"]), ln["e"], ln["o"], ln["off"], ln["var"]))
    rej = tables.validate_lines(ctx, "Trace_Numeric", lines, "decodes", jobs=16)
    for idx, clause in rej.items():
        ln = lines[idx]
        ctx.violation(f"C04/trace/{ln['k']}/{clause[0]}/{ln['e']}/{ln['o']}{('/inapplicable-context-calibrators' if ln['var'] == 'ctx' else '/legacy-spelling' if ln['var'] == 'alias' else '/' + ln['var'] if ln['var'] else '')}",
                      f"logged decode rejected by Trace_Numeric ({clause[0]}): bits {''.join(map(str, ln['b']))} -> {ln['r']} class {ln['c']}",
                      {"k": ln["k"], "b": ln["b"], "e": ln["e"], "o": ln["o"], "off": ln["off"], "var": ln["var"]})
    ctx.sample({"direction": "code->spec", **{k: lines[0][k] for k in ("k", "e", "o", "off", "r", "c", "adv")},
                "bits": "".join(map(str, lines[0]["b"]))}, limit=5)


def replay(ctx, obj):
    ln = line_for(obj["k"], obj["b"], obj["e"], obj["o"], obj.get("off", 0), None, obj.get("var", ""))
    rej = tables.validate_lines(ctx, "Trace_Numeric", [ln], "replay", jobs=1)
    print(ln, "rejected:", rej)
    for idx, clause in rej.items():
        ctx.violation(f"C04/trace/{ln['k']}/{clause[0]}", "replay rejected", obj)
