"""C10 - framing terminates on every finite source and yields only complete packets."""
from harness.props import framer_common as fc
from harness.props.framer_common import tla_set
from harness.props.c02 import _mk_stream, replay  # noqa: F401

META = {
    "title": "Framing terminates on every finite source and yields only complete packets",
    "design_ref": "DESIGN.md section 5 C10",
}


def run(ctx):
    from space_packet_parser import packets
    from space_packet_parser.xtce.definitions import XtcePacketDefinition
    q = ctx.quick
    ctx.rule = ("TLC: every prefix (cut at every byte) of every well-formed stream of <= MaxPackets packets, plus every "
                "byte string over GarbageAlphabet up to GarbageLen, x prefix lengths x 3 source kinds x read sizes x every "
                "socket fragmentation incl. peer close; invariants OnlyComplete/DoneExact/NoCrash and liveness Terminates "
                "under weak fairness. A: edge cover of the dumped graph replayed with an item budget (a hang is a verdict). "
                "B: random truncated / garbage sources traced and validated by Trace_Framer; also through "
                "XtcePacketDefinition.packet_generator. Real file objects of every flavour (read-only, small buffer, read/write with pending "
                "or partly flushed writes, temporary, BufferedReader, gzip / bz2 / lzma) are compared with the validated in-memory runs, and every "
                "source kind is framed again with show_progress=True (empty, truncated, early close). distinct = distinct (kind, read size, prefix, stream, chunks).")
    ctx.assumptions = ["a socket recv() returning b'' means the peer closed (end of stream)",
                       "TLC 1.8 and CommunityModules Json/IOUtils are correct"]
    consts = {"TrimAt": 5, "DefaultSock": 4, "AsIs": "FALSE", "Eager": "FALSE", "DataLens": tla_set([1, 2, 3]),
              "MaxPackets": 2 if q else 3, "Skips": tla_set([0, 2]),
              "RSizes": tla_set([0, 1, 2, 5, 9]), "GarbageLen": 7 if q else 9, "GarbageAlphabet": "{0, 1, 2}" if q else "{0, 1, 2}",
              "WithCuts": "TRUE"}
    fc.model_check(ctx, consts, need_giveup=True, tag="cuts+garbage")
    consts3 = dict(consts, Eager="TRUE", MaxPackets=1, GarbageLen=5, RSizes=tla_set([0, 2, 5]))
    fc.model_check(ctx, consts3, need_giveup=True, tag="eager-policy", extra_actions=["ReadAhead"])
    fc.asis_counterexample(ctx)
    ctx.exhaustive = True

    # ---- A
    gconsts = dict(consts, TrimAt=1000000, MaxPackets=2, GarbageLen=4 if q else 6, GarbageAlphabet="{0, 1}",
                   RSizes=tla_set([0, 1, 5] if q else [0, 1, 2, 5, 9]))
    fc.direction_a(ctx, "C10", gconsts, "cuts")
    d = XtcePacketDefinition()

    class _Via:
        @staticmethod
        def packet_generator(src, **kw):
            return d.packet_generator(src, ccsds_headers_only=True, **kw)
    gc2 = dict(gconsts, MaxPackets=1, GarbageLen=3, RSizes=tla_set([0, 2]), Skips=tla_set([0, 2]))
    fc.direction_a(ctx, "C10", gc2, "packet_generator", via=_Via)

    # ---- B
    rng = ctx.rng
    runs = []
    n = 200 if q else 2500
    for i in range(n):
        skip = rng.choice([0, 0, 1, 4])
        lens = [rng.choice([1, 2, 3, 7, 255, 256, 700]) for _ in range(rng.randint(0, 5))]
        data = _mk_stream(rng, packets, lens, skip)
        mode = rng.randrange(4)
        if mode == 0 and data:
            data = data[:rng.randrange(len(data))]            # producer died at a random byte
        elif mode == 1:
            data = bytes(rng.choice([0, 0, 0, 1, 2, 255]) for _ in range(rng.randrange(0, 40)))   # garbage
        elif mode == 2 and data:
            data = data + bytes(rng.randrange(256) for _ in range(rng.randrange(1, 6)))  # trailing fragment
        kind = rng.choice(["bytes", "file", "rfile", "sock"])
        rsize = rng.choice([0, 1, 2, 5, 6, 7, 64, 4096])
        runs.append(fc.record(data, kind, rsize, skip, rng, 80, f"fault-{i}-mode{mode}"))
    for kind in ("bytes", "file", "rfile", "sock"):
        for rsize in (0, 1, 7):
            for skip in (0, 3):
                runs.append(fc.record(b"", kind, rsize, skip, rng, 5, "empty"))
    # sources that die beyond the 20 MB buffer-trim threshold (every kind)
    big = _mk_stream(rng, packets, [65536] * 322, 0)
    cutpoints = [len(big) - 1, len(big) - 65536 - 3, len(big) - 30000]
    for kind, rsize in (("bytes", 0), ("file", 1 << 20), ("sock", 1 << 16)):
        cut = cutpoints[len(runs) % len(cutpoints)]
        runs.append(fc.record(big[:cut], kind, rsize, 0, rng, 400, f"dies-beyond-20MB-{kind}"))
    fc.validate_traces(ctx, "C10", runs, "faults")
    # ---- real file objects of every flavour: same framing as the in-memory file of the validated runs
    cases = []
    for i in range(6 if q else 40):
        skip = rng.choice([0, 0, 3])
        lens = [rng.choice([1, 2, 7, 255, 1024, 1017]) for _ in range(rng.randint(1, 12))]
        data = _mk_stream(rng, packets, lens, skip)
        bounds = [0]
        for ln in lens:
            bounds.append(bounds[-1] + skip + 6 + ln)
        cut = rng.choice(bounds[1:])                       # a writer that flushed after a whole packet
        if i % 3 == 1:
            data = data[:rng.randrange(1, len(data))]      # producer died mid-stream
            cut = min(cut, len(data))
        elif i % 3 == 2:
            cut = rng.randrange(len(data))                 # flushed mid-packet
        cases.append((data, rng.choice([0, 0, 7, 4096]), skip, cut))
    cases.append((_mk_stream(rng, packets, [1018] * 32, 0), 4096, 0, 24 * 1024))      # 1 KiB packets, flushed at a block and packet boundary
    cases.append((b"", 0, 0, 0))
    fc.os_sources_section(ctx, "C10", cases)
    # ---- the definition's generator with segment combining on interleaved, truncated multi-APID streams: it terminates and nothing
    # but its items comes out (what is combined is C12's business)
    import io
    import warnings
    from harness import defs as _defs
    hd = _defs.header_only_definition()
    ncomb = 0
    for i in range(150 if q else 1500):
        n_ = rng.randint(1, 14)
        stream = b"".join(_defs.mk_packet(bytes(rng.getrandbits(8) for _ in range(rng.randint(1, 5))), apid=rng.choice([1, 2, 3]),
                                          flags=rng.randrange(4), seq=rng.randrange(16384)) for _ in range(n_))
        if i % 2:
            stream = stream[:rng.randrange(len(stream) + 1)]
        src = (stream, io.BytesIO(stream))[i % 3 == 0]
        got, outcome = 0, "stop"
        with warnings.catch_warnings():
            warnings.simplefilter("ignore")
            try:
                for _ in hd.packet_generator(src, combine_segmented_packets=True, secondary_header_bytes=rng.choice([0, 0, 2]),
                                             parse_bad_pkts=bool(i % 5), yield_unrecognized_packet_errors=bool(i % 7 == 0)):
                    got += 1
                    if got > n_ + 2:
                        outcome = "abort"
                        break
            except Exception as e:  # noqa: BLE001
                outcome = "raise:" + type(e).__name__
        ncomb += 1
        ctx.traces += 1
        ctx.count(("combine", stream, i % 3 == 0))
        if outcome != "stop":
            ctx.violation("C10/combine/" + outcome.split(":")[0], f"packet_generator(combine_segmented_packets=True) over {n_} interleaved packets of 3 APIDs "
                          f"({len(stream)} bytes): {outcome} after {got} items", {"data": list(stream), "kind": "combine"})
    ctx.extra["combine_streams"] = ncomb
    # ---- show_progress=True must not change how a source is framed or how the generator ends (empty input, truncation, early close)
    pcases = []
    for kind in ("bytes", "file", "rfile", "sock"):
        for data_ in (b"", b"\x08", b"\x08\x01\xc0\x00\x00", _mk_stream(rng, packets, [3], 0)[:-1], _mk_stream(rng, packets, [3, 1], 2),
                      _mk_stream(rng, packets, [7, 2, 300], 0)[:-5], bytes(3), _mk_stream(rng, packets, [1], 4)[:3]):
            for rsize in (0, 4):
                pcases.append((data_, kind, rsize, 4 if len(data_) == 3 and data_ != bytes(3) else (2 if len(data_) == 18 else 0)))
    fc.progress_option_section(ctx, "C10", pcases)
    fc.progress_option_section(ctx, "C10", [(c[0], c[1], c[2], c[3]) for c in pcases[::5]], via=_Via)
    hangs = sum(1 for r in runs if r[5]["outcome"] != "stop")
    ctx.extra["runs_not_terminating_or_raising"] = hangs
    ctx.sample({"direction": "code->spec", "label": runs[3][5]["label"], "kind": runs[3][1], "rsize": runs[3][2],
                "skip": runs[3][3], "data": list(runs[3][0][:40]), "events": runs[3][4][-6:]}, limit=5)
