"""C02 - stream framing is exact and independent of source kind and chunking."""
from harness.props import framer_common as fc
from harness.props.framer_common import tla_set

META = {
    "title": "Stream framing is exact and independent of source kind and chunking",
    "design_ref": "DESIGN.md section 5 C02",
}


def _mk_stream(rng, packets, lens, skip):
    out = b""
    for n in lens:
        data = bytes(rng.randrange(256) for _ in range(min(n, 64))) * (n // min(n, 64) + 1)
        pkt = packets.create_ccsds_packet(data[:n], version_number=rng.randrange(8), type=rng.randrange(2),
                                          secondary_header_flag=rng.randrange(2), apid=rng.randrange(2048),
                                          sequence_flags=rng.randrange(4), sequence_count=rng.randrange(16384))
        out += bytes(rng.randrange(1, 256) for _ in range(skip)) + bytes(pkt)
    return out


def run(ctx):
    from space_packet_parser import packets
    q = ctx.quick
    ctx.rule = ("TLC: all well-formed streams of <= MaxPackets packets (data lengths DataLens) x prefix lengths x 3 source "
                "kinds x read sizes x every socket fragmentation (BFS, all invariants + liveness). A: edge cover of the "
                "dumped state graph replayed into ccsds_generator (bytes/BytesIO/real file/scripted socket). B: random and "
                "boundary streams (1..65536-byte data fields, >20 MB trim branch, mission files) traced at the source/sink "
                "interface + in-repo hooks and validated by Trace_Framer. distinct = distinct (kind, read size, prefix, "
                "stream, chunk schedule) tuples.")
    ctx.assumptions = ["BufferedReader.read(n) returns min(n, remaining) bytes for regular files",
                       "TLC 1.8 and CommunityModules Json/IOUtils are correct",
                       "byte identity of yielded packets is checked by slicing the input at the offsets the "
                       "specification emits (contents are not sent through TLC for large packets)"]
    consts = {"TrimAt": 5, "DefaultSock": 4, "AsIs": "FALSE", "Eager": "FALSE", "DataLens": tla_set([1, 2, 3] if q else [1, 2, 5]),
              "MaxPackets": 3 if q else 4, "Skips": tla_set([0, 2] if q else [0, 1, 4]),
              "RSizes": tla_set([0, 1, 2, 5, 7, 9]), "GarbageLen": 0, "GarbageAlphabet": "{0}", "WithCuts": "FALSE"}
    fc.model_check(ctx, consts, need_giveup=False, tag="wellformed")
    # larger packets: two-byte length field, 300-byte data
    consts2 = dict(consts, DataLens=tla_set([1, 300]), MaxPackets=2, RSizes=tla_set([0, 256] if q else [0, 7, 256, 307]), Skips=tla_set([0, 3]))
    fc.model_check(ctx, consts2, need_giveup=False, tag="len16")
    # refill policy free (read-ahead at any point): the properties must not depend on when reads happen
    consts3 = dict(consts, Eager="TRUE", MaxPackets=2, RSizes=tla_set([0, 2, 7]), Skips=tla_set([0, 2]))
    fc.model_check(ctx, consts3, need_giveup=False, tag="eager-policy", extra_actions=["ReadAhead"])
    ctx.exhaustive = True

    # ---- A: spec -> code
    gconsts = dict(consts, TrimAt=1000000, MaxPackets=2 if q else 3, RSizes=tla_set([0, 1, 2, 7] if q else [0, 1, 2, 5, 7, 9]))
    fc.direction_a(ctx, "C02", gconsts, "wellformed")
    from space_packet_parser.xtce.definitions import XtcePacketDefinition
    d = XtcePacketDefinition()
    gc2 = dict(gconsts, MaxPackets=2, RSizes=tla_set([0, 2]), Skips=tla_set([0, 2]))
    class _Via:  # packet_generator(..., ccsds_headers_only=True), the property's second observation point
        @staticmethod
        def packet_generator(src, **kw):
            return d.packet_generator(src, ccsds_headers_only=True, **kw)
    fc.direction_a(ctx, "C02", gc2, "headers-only", via=_Via)

    # ---- B: code -> spec
    rng = ctx.rng
    runs = []
    nrand = 150 if q else 1500
    for i in range(nrand):
        skip = rng.choice([0, 0, 1, 4, 13])
        lens = [rng.choice([1, 2, 3, 7, 255, 256, 257, 1000]) for _ in range(rng.randint(1, 8))]
        data = _mk_stream(rng, packets, lens, skip)
        kind = rng.choice(["bytes", "file", "rfile", "sock"])
        rsize = rng.choice([0, 1, 2, 5, 6, 7, 64, 4096, 65542])
        runs.append(fc.record(data, kind, rsize, skip, rng, len(lens) + 2, f"random-{i}"))
    # boundary data-field sizes and chunk boundaries exactly on / inside headers
    for lens in ([65535], [65536], [65536, 1, 65536], [1] * 40):
        for kind in ("bytes", "file", "sock"):
            for rsize in (0, 6, 7, 65542):
                data = _mk_stream(rng, packets, lens, 0)
                runs.append(fc.record(data, kind, rsize, 0, rng, len(lens) + 2, f"boundary-{lens[0]}x{len(lens)}"))
    # extreme header contents are headers like any other: all bits zero (APID 0, count 0, one data byte) and all bits one
    zero = bytes(packets.create_ccsds_packet(b"\x00", version_number=0, type=0, secondary_header_flag=0, apid=0, sequence_flags=0, sequence_count=0))
    ones = bytes(packets.create_ccsds_packet(b"\xff" * 65536, version_number=7, type=1, secondary_header_flag=1, apid=2047, sequence_flags=3, sequence_count=16383))
    mid = _mk_stream(rng, packets, [3], 0)
    for kind in ("bytes", "file", "sock"):
        for rsize in (0, 7):
            runs.append(fc.record(mid + zero + mid + zero + zero + mid, kind, rsize, 0, rng, 8, "all-zero-headers"))
            runs.append(fc.record(zero + mid, kind, rsize, 0, rng, 4, "all-zero-header-first"))
        runs.append(fc.record(mid + ones + zero + mid, kind, 0, 0, rng, 6, "all-one-header"))
    for cut in (1, 3, 6, 7, 8):   # socket chunks that end exactly `cut` bytes into each packet
        lens = [10, 20, 30]
        data = _mk_stream(rng, packets, lens, 0)
        sched = []
        for n in lens:
            sched += [cut, n + 6 - cut]
        it = iter(sched)
        runs.append(fc.record(data, "sock", 4096, 0, rng, 5, f"sock-cut-{cut}",
                              chooser=lambda lim, it=it: min(lim, next(it, lim))))
    fc.validate_traces(ctx, "C02", runs, "random")
    # real file objects of every flavour must frame complete streams like the validated in-memory file
    oscases = []
    for i in range(4 if q else 30):
        skip = rng.choice([0, 0, 5])
        lens = [rng.choice([1, 2, 7, 255, 1024, 1017, 4090]) for _ in range(rng.randint(1, 10))]
        data = _mk_stream(rng, packets, lens, skip)
        bounds = [0]
        for ln_ in lens:
            bounds.append(bounds[-1] + skip + 6 + ln_)
        # a writer that flushed after a whole packet (every other case), or anywhere
        oscases.append((data, rng.choice([0, 0, 7, 4096]), skip, rng.choice(bounds[1:]) if i % 2 == 0 else rng.randrange(len(data))))
    fc.os_sources_section(ctx, "C02", oscases)

    # > 20 MB: the buffer-trim branch (thorough: also via socket and file with small reads)
    big = []
    lens = [65536] * 330
    data = _mk_stream(rng, packets, lens, 0)
    big.append(fc.record(data, "file", 1 << 20, 0, rng, len(lens) + 2, "trim-21MB-file"))
    big.append(fc.record(data, "bytes", 0, 0, rng, len(lens) + 2, "trim-21MB-bytes"))
    if not q:
        big.append(fc.record(data, "sock", 0, 0, rng, len(lens) + 2, "trim-21MB-sock"))
    # a stream long enough for the buffer to be trimmed more than once (the second trim starts from a trimmed buffer)
    lens3 = [65536] * 1000
    data3 = _mk_stream(rng, packets, lens3, 0)
    big.append(fc.record(data3, "file", 1 << 22, 0, rng, len(lens3) + 2, "trim-65MB-file"))
    if not q:
        big.append(fc.record(data3, "bytes", 0, 0, rng, len(lens3) + 2, "trim-65MB-bytes"))
    del data3
    ntrim = sum(1 for r in big for e in r[4] if e["ev"] == "trim")
    ctx.extra["trim_events_observed"] = ntrim
    if ntrim == 0:
        ctx.vacuity("the 21 MB stream did not reach the trim branch (hook missing?)")
    fc.validate_traces(ctx, "C02", big, "trim")

    # internal accounting drift (hook `parsed` vs bytes actually consumed) is not a verdict, but it is amplified
    # into an observable witness when one exists: K identical packets such that the drifting counter hits the
    # total early (sized sources stop on `parsed == total`).
    _amplify_drift(ctx, runs, packets, rng)

    # ---- source selection and options that must not change framing: show_progress, text-mode files, unknown sources
    import contextlib
    import io as _io
    data = _mk_stream(rng, packets, [5, 300, 1, 64], 3)
    want = [bytes(p) for p in packets.ccsds_generator(data, skip_header_bytes=3)]
    buf = _io.StringIO()
    with contextlib.redirect_stdout(buf):
        got = [bytes(p) for p in packets.ccsds_generator(_io.BytesIO(data), skip_header_bytes=3, show_progress=True, buffer_read_size_bytes=7)]
        got2 = [bytes(p) for p in d.packet_generator(_io.BytesIO(data), ccsds_headers_only=True, skip_header_bytes=3, show_progress=True)]
    ctx.traces += 2
    if got != want or got2 != want:
        ctx.violation("C02/show-progress-changes-framing", f"{len(got)}/{len(got2)} packets with show_progress, {len(want)} without", {"data": list(data), "skip": 3})
    # the same for every source kind and for the smallest complete streams (no packet at all, one packet, prefixed packets)
    pcases = []
    for kind in ("bytes", "file", "rfile", "sock"):
        for lens_, skip_ in (([], 0), ([], 3), ([1], 0), ([1], 5), ([300, 2], 0), ([7, 7, 7], 2)):
            pcases.append((_mk_stream(rng, packets, lens_, skip_), kind, (0, 4)[len(pcases) % 2], skip_))
    fc.progress_option_section(ctx, "C02", pcases)
    for label, src in (("text-mode file", _io.TextIOWrapper(_io.BytesIO(data))), ("list", [1, 2, 3]), ("str", "abc"), ("bytearray", bytearray(data))):
        try:
            items = []
            for it in packets.ccsds_generator(src):
                items.append(it)
                if len(items) > 10:
                    break
            # source kinds the property does not list: behaviour recorded, not judged (accepting more kinds is not a violation)
            ctx.tally("unlisted_source_accepted:" + label)
        except OSError:
            ctx.tally("unlisted_sources_refused_with_OSError")
        except Exception as e:  # noqa: BLE001
            ctx.tally(f"unlisted_source_{label}_raised_{type(e).__name__}")
        ctx.traces += 1

    # mission files (first N packets' worth of bytes), several read sizes
    import glob
    files = sorted(glob.glob("/repo/tests/test_data/jpss/*.DAT1")) + sorted(glob.glob("/repo/tests/test_data/suda/*.bin"))
    mruns = []
    for fpath in files:
        raw = open(fpath, "rb").read()
        offs = [0]
        while offs[-1] + 6 <= len(raw) and len(offs) <= (300 if q else 1500):
            o = offs[-1]
            offs.append(o + 7 + raw[o + 4] * 256 + raw[o + 5])
        data = raw[:offs[-1]] if offs[-1] <= len(raw) else raw[:offs[-2]]
        for kind, rsize in (("file", 0), ("rfile", 4096), ("sock", 4096), ("file", 7), ("bytes", 0)):
            mruns.append(fc.record(data, kind, rsize, 0, rng, len(offs) + 2, "mission:" + fpath.split("/")[-1]))
    fc.validate_traces(ctx, "C02", mruns, "mission")
    ctx.sample({"direction": "code->spec", "label": runs[0][5]["label"], "kind": runs[0][1], "rsize": runs[0][2],
                "skip": runs[0][3], "bytes": len(runs[0][0]), "events": runs[0][4][:8]}, limit=5)


def _amplify_drift(ctx, runs, packets, rng):
    from math import gcd
    tried = set()
    witnesses = []
    for data, kind, rsize, skip, ev, meta in runs:
        if kind == "sock":
            continue
        consumed = 0
        for i, e in enumerate(ev):
            if e["ev"] == "yield":
                consumed += skip + e["n"]
            elif e["ev"] == "emit":
                n = e["n"]
                true_inc = skip + n
                prev = [x for x in ev[:i] if x["ev"] == "emit"]
                obs_inc = e["parsed"] - (prev[-1]["parsed"] if prev else 0)
                if obs_inc != true_inc and obs_inc > 0 and (skip, n, obs_inc) not in tried and n <= 300:
                    tried.add((skip, n, obs_inc))
                    ctx.tally("accounting_drift_seen")
                    g = gcd(obs_inc, true_inc)
                    K, j = obs_inc // g, true_inc // g
                    if j < K <= 4000:
                        witnesses.append((skip, n, K))
    wr = []
    for skip, n, K in witnesses[:20]:
        data = _mk_stream(rng, packets, [n - 6] * K, skip)
        for kind in ("bytes", "file"):
            wr.append(fc.record(data, kind, 0, skip, rng, K + 2, f"drift-witness-skip{skip}-n{n}-K{K}"))
    if wr:
        fc.validate_traces(ctx, "C02", wr, "drift-witness")


def replay(ctx, obj):
    import random
    from harness import framer_io
    if obj.get("kind") == "combine":
        print("combining-generator case: re-run the check (C10)")
        return
    if obj.get("kind") in fc.OS_KINDS:
        if obj.get("data") is None:
            print("replay of a large os-source case: re-run the check")
            return
        fc.os_sources_section(ctx, ctx.pid, [(bytes(obj["data"]), obj["rsize"], obj["skip"], obj["cut"])])
        print("violations:", len(ctx.violations))
        return
    data = bytes(obj["data"])
    script = framer_io.Script(obj.get("chunks", []))
    ev, items, outcome = framer_io.run_framer(data, obj["kind"], obj["rsize"], obj["skip"], chooser=script, max_items=1000)
    runs = [(data, obj["kind"], obj["rsize"], obj["skip"], ev, {"label": "replay", "items": items, "outcome": outcome})]
    fc.validate_traces(ctx, ctx.pid, runs, "replay")
    print("outcome:", outcome, "items:", [len(i) for i in items])
