"""C18 - the xarray dataset holds every parsed value, per APID, in order, without loss."""
import json
import math
import os
import tempfile
import warnings

from harness import core, crit, defs, xdoc
from harness.calib import rat
from harness.props.c08 import poly

META = {"title": "The xarray dataset holds every parsed value, per APID, in order, without loss"}
HDR = [("VERSION", 3), ("TYPE", 1), ("SHF", 1), ("APID", 11), ("SEQF", 2), ("SEQC", 14), ("PLEN", 16)]
WHOLE = {"k": "whole", "tc": [], "tag": 0, "unit": 1}


def uint(w, enc="unsigned", order="msb"):
    return xdoc.ptype_num("int", xdoc.numeric_enc("int", w, enc, order))


def cmp(ref, op, n):
    return {"k": "cmp", "ref": ref, "op": op, "cal": True, "lit": crit.lit_num(False, n)}


def structure_defn():
    d = xdoc.new_defn("ROOT")
    for nm, w in HDR:
        xdoc.add_param(d, nm, uint(w))
    xdoc.add_param(d, "SEL", uint(8))
    xdoc.add_param(d, "ID", uint(16))
    for nm in ("XA", "ZA", "YB", "WB"):
        xdoc.add_param(d, nm, uint(8))
    xdoc.add_container(d, "ROOT", [("p", nm) for nm, _ in HDR] + [("p", "SEL"), ("p", "ID")], abstract=True)
    for a in (1, 2):
        # field set "a" comes in two layouts that list the same parameters in a different order (SEL 0 / 2): one field SET
        xdoc.add_container(d, f"A{a}a", [("p", "XA"), ("p", "ZA")], base="ROOT", crit_list=[cmp("APID", "==", a), cmp("SEL", "==", 0)])
        xdoc.add_container(d, f"A{a}a2", [("p", "ZA"), ("p", "XA")], base="ROOT", crit_list=[cmp("APID", "==", a), cmp("SEL", "==", 2)])
        xdoc.add_container(d, f"A{a}b", [("p", "YB"), ("p", "WB")], base="ROOT", crit_list=[cmp("APID", "==", a), cmp("SEL", "==", 1)])
    return d


def structure_packet(fs, nid, apid):
    """(packet bytes, {variable: value}) for packet number nid with field set fs"""
    v1, v2 = 7 * nid % 256, (11 * nid + 3) % 256
    if fs == "a":
        sel = 0 if nid % 2 else 2
        vals = {"XA": v1, "ZA": v2} if sel == 0 else {"ZA": v1, "XA": v2}
    else:
        sel, vals = 1, {"YB": v1, "WB": v2}
    return defs.mk_packet(bytes([sel, nid >> 8, nid & 255, v1, v2]), apid=apid, seq=nid), dict(vals, SEL=sel, ID=nid)


def write_files(tmp, files_pk, tag):
    paths = []
    for i, pks in enumerate(files_pk):
        p = os.path.join(tmp, f"{tag}-{i}.bin")
        with open(p, "wb") as f:
            for b in pks:
                f.write(b)
        paths.append(p)
    return paths


def value_layouts():
    """(apid, list of (name, ptype, bit patterns generator))  - every parameter type x encoding extremes"""
    out = []
    fields = []
    for w in (7, 8, 9, 15, 16, 17, 31, 32, 33, 63, 64, 65, 72):
        fields.append((f"U{w}", uint(w), w))
        fields.append((f"S{w}", uint(w, "signed" if w % 2 else "twosComplement"), w))
    out.append((10, fields))
    fields = [("F16", xdoc.ptype_num("float", xdoc.numeric_enc("flt", 16)), 16), ("F32", xdoc.ptype_num("float", xdoc.numeric_enc("flt", 32)), 32),
              ("F32L", xdoc.ptype_num("float", xdoc.numeric_enc("flt", 32, order="lsb")), 32), ("F64", xdoc.ptype_num("float", xdoc.numeric_enc("flt", 64)), 64),
              ("M32", xdoc.ptype_num("float", xdoc.numeric_enc("flt", 32, fmt="mil1750a")), 32),
              ("M32Y", xdoc.ptype_num("float", dict(xdoc.numeric_enc("flt", 32, fmt="mil1750a"), spelling="legacy")), 32),     # spelled MIL-1750A
              ("F32Y", xdoc.ptype_num("float", dict(xdoc.numeric_enc("flt", 32), spelling="legacy")), 32)]
    out.append((11, fields))
    en = [{"raw": crit.tv_int(v), "label": lab} for v, lab in ((0, "OFF"), (1, "ON"), (2, "STANDBY_MODE_LONG_LABEL"), (3, "é"))]
    cal = {"default": poly([(rat(1, 2), 0), (rat(3), 1)]), "context": []}
    fields = [("EN", xdoc.ptype_num("enum", xdoc.numeric_enc("int", 2), enum=en), 2), ("BO", xdoc.ptype_num("bool", xdoc.numeric_enc("int", 1)), 1),
              ("PAD", uint(5), 5), ("BO8", xdoc.ptype_num("bool", xdoc.numeric_enc("int", 8)), 8),
              ("ENS", xdoc.ptype_num("enum", xdoc.numeric_enc("int", 8, "signed"), enum=[{"raw": crit.tv_int(v), "label": f"N{v}"} for v in (-1, 0, 1, -128, 127)]), 8), ("CAL", xdoc.ptype_num("int", xdoc.numeric_enc("int", 8), cal), 8),
              ("CTX", xdoc.ptype_num("int", xdoc.numeric_enc("int", 16), {"default": {"k": "none"}, "context": [
                  {"crit": [{"k": "cmp", "ref": "BO", "op": "==", "cal": False, "lit": crit.lit_num(False, 1)}], "cal": poly([(rat(1, 4), 0), (rat(3, 2), 1)])}]}), 16),
              ("TM", dict(xdoc.ptype_num("abstime", xdoc.numeric_enc("int", 8), {"default": poly([(rat(5, 2), 0), (rat(1, 4), 1)]), "context": []}, unit="s"), epoch="TAI"), 8)]
    out.append((12, fields))
    fields = [("STR", xdoc.ptype_sb({"k": "str", "len": {"k": "fixed", "n": 48}, "delim": WHOLE, "codec": "UTF-8"}), 48),
              ("BIN", xdoc.ptype_sb({"k": "bin", "len": {"k": "fixed", "n": 32}, "delim": WHOLE, "codec": ""}), 32),
              ("LAT", xdoc.ptype_sb({"k": "str", "len": {"k": "fixed", "n": 24}, "delim": WHOLE, "codec": "ISO-8859-1"}), 24)]
    out.append((13, fields))
    # binary fields that are not a whole number of bytes (the parser returns ceil(bits / 8) bytes), and a referenced length
    fields = [("B12", xdoc.ptype_sb({"k": "bin", "len": {"k": "fixed", "n": 12}, "delim": WHOLE, "codec": ""}), 12),
              ("B20", xdoc.ptype_sb({"k": "bin", "len": {"k": "fixed", "n": 20}, "delim": WHOLE, "codec": ""}), 20),
              ("B4", xdoc.ptype_sb({"k": "bin", "len": {"k": "fixed", "n": 4}, "delim": WHOLE, "codec": ""}), 4),
              ("B9", xdoc.ptype_sb({"k": "bin", "len": {"k": "fixed", "n": 9}, "delim": WHOLE, "codec": ""}), 9),
              ("NB", uint(3), 3),
              ("BDYN", xdoc.ptype_sb({"k": "bin", "len": {"k": "dyn", "ref": "NB", "cal": False, "adj": True, "slope": 4, "icpt": 4}, "delim": WHOLE, "codec": ""}), 0)]
    out.append((14, fields))
    return out


STR_SAMPLES = [b"ABCDEF", b"AB\x00\x00\x00\x00", b"\x00\x00AB\x00C", "é€a".encode() + b"\x00"[:0], "aé€".encode(), b"\x00\x00\x00\x00\x00\x00", b"   xyz"]
BIN_SAMPLES = [b"\x01\x02\x03\x04", b"\x01\x02\x00\x00", b"\x00\x00\x03\x04", b"\x00\x00\x00\x00", b"\xff\xff\xff\xff"]
LAT_SAMPLES = [b"abc", b"\xe9\xff\xa0", b"a\x00\x00", b"\x00b\x00"]


def patterns(name, w, rng, k):
    base = [[0] * w, [1] * w, [1] + [0] * (w - 1), [0] + [1] * (w - 1), [0] * (w - 1) + [1]]
    if name.startswith(("F", "M")):
        eb = {16: 5, 32: 8, 64: 11}[w] if name[0] == "F" else 8
        extra = [[0] + [1] * eb + [0] * (w - 1 - eb), [1] + [1] * eb + [0] * (w - 1 - eb), [0] + [1] * eb + [1] + [0] * (w - 2 - eb),
                 [0] * (w - 1) + [1], [0, 0] + [1] * (eb - 1) + [0] * (w - 1 - eb)]
        if name[0] == "M":
            extra = [[0, 1] + [0] * 22 + [1, 0, 0, 0, 0, 0, 0, 0], [0] * 23 + [1] + [1, 0, 0, 0, 0, 0, 0, 0], [1] + [0] * 23 + [0, 1, 1, 1, 1, 1, 1, 1]]
        base += extra
    return base[k % len(base)] if k < len(base) * 2 else [rng.getrandbits(1) for _ in range(w)]


def cell_equal(cell, want):
    import numpy as np
    c = cell.item() if isinstance(cell, np.generic) else cell
    if isinstance(want, int) and not isinstance(want, bool) and type(want).__name__ != "BoolParameter" and isinstance(c, float):
        # an integer value stored in a float cell must still BE that integer (a float64 column silently rounds above 2^53)
        return c == c and c not in (float("inf"), float("-inf")) and c.is_integer() and int(c) == int(want)
    if isinstance(want, float) or isinstance(c, float):
        try:
            cf, wf = float(c), float(want)
        except Exception:  # noqa: BLE001
            return False
        return (math.isnan(cf) and math.isnan(wf)) or (cf == wf and (wf != 0 or math.copysign(1, cf) == math.copysign(1, wf)))
    if isinstance(want, bytes):
        return bytes(c) == bytes(want) if isinstance(c, (bytes, bytearray)) else False
    if isinstance(want, str):
        return isinstance(c, str) and c == str(want)
    if isinstance(want, bool) or type(want).__name__ == "BoolParameter":
        return bool(c) == bool(want) and not isinstance(c, (str, bytes))
    if isinstance(want, int):
        return not isinstance(c, (str, bytes, float)) and int(c) == int(want)
    return False


def run(ctx):
    q = ctx.quick
    rng = ctx.rng
    ctx.rule = ("Dataset.tla: every layout of <= 4 packets of 2 APIDs x 2 field sets in <= 2 files (TLC: Ordered, Complete, OnlyOwn, RejectIff, "
                "Terminates); every exported case is replayed through create_dataset on real files (rows identified by a packet id field; "
                "rejection = ValueError). Value level: per-APID layouts covering unsigned / signed integers at widths around every dtype "
                "threshold (7..72 bits), IEEE 16/32/64 and 1750A floats incl. specials, enumerations, booleans, calibrated and time values, "
                "strings and blobs with leading / trailing NULs and non-ASCII text, in derived and raw mode, over 3 files: every cell is "
                "compared with the item the packet generator yields for that packet. distinct = cases + (variable, row, mode) cells.")
    ctx.assumptions = ["the packet generator's own values are decided by C01/C04/C07/C08; here cells are compared with them",
                       "float cells are compared after conversion to Python float (binary32 values are exact in binary64)"]
    import numpy as np
    from space_packet_parser import xarr
    from space_packet_parser.xtce.definitions import XtcePacketDefinition  # noqa: F401
    r = ctx.tlc_expect_ok("Dataset", "Dataset.cfg", coverage=True, tag="accumulation")
    ctx.require_actions(r, ["Accept", "RejectFieldSet", "NextFile", "Finish"])
    gcfg = os.path.join(ctx.work, "gen.cfg")
    with open(gcfg, "w") as f:
        f.write('SPECIFICATION Spec\nCONSTANTS\n  Apids = {1, 2}\n  FieldSets = {"a", "b"}\n  MaxPackets = %d\n  MaxFiles = 2\nINVARIANT Export\nCHECK_DEADLOCK FALSE\n' % (3 if q else 4))
    rg = ctx.tlc_expect_ok("Dataset", gcfg, workers=1, count=False, tag="export")
    cases = [json.loads(core.parse_printed(l)[1]) for l in rg.printed]
    if len(cases) < 100:
        raise core.MachineryError(f"export too small: {len(cases)}")
    ctx.exhaustive = True
    tmp = tempfile.mkdtemp(prefix="c18-", dir=ctx.work)
    sd = structure_defn()
    sobj = xdoc.build(sd)
    import pathlib
    sd_path = os.path.join(tmp, "structure-definition.xml")
    with open(sd_path, "w") as f:
        f.write(xdoc.render(sd, style="prefix", prefix="xtce"))
    for ci, c in enumerate(cases):
        files_pk = []
        ids = {}
        cellvals = {}
        nid = 0
        for fi, f in enumerate(c["files"], 1):
            pks = []
            for pi, p in enumerate(f, 1):
                nid += 1
                ids[(fi, pi)] = nid
                pkb, cellvals[nid] = structure_packet(p["fs"], nid, p["apid"])
                pks.append(pkb)
            files_pk.append(pks)
        paths = write_files(tmp, files_pk, f"s{ci}")
        ctx.count(("structure", json.dumps(c["files"])))
        ctx.traces += 1
        prob = None
        try:
            with warnings.catch_warnings():
                warnings.simplefilter("ignore")
                # the documented call shapes: file list as list / tuple / iterator of str or Path, a single path on its own;
                # the definition as an object or as a path to its document
                shape = ci % 4
                files_arg = (list(paths), [pathlib.Path(x) for x in paths], tuple(paths),
                             (paths[0] if len(paths) == 1 else iter(list(paths))))[shape]
                defn_arg = (sobj, pathlib.Path(sd_path), sd_path, sobj)[shape]
                ctx.tally(f"call_shape_{shape}")
                ds = xarr.create_dataset(files_arg, defn_arg, root_container_name="ROOT")
            got = "built"
        except ValueError:
            got, ds = "rejected", None
        except Exception as e:  # noqa: BLE001
            got, ds = f"exception {type(e).__name__}: {e}", None
        if got != c["status"]:
            prob = f"create_dataset {got}; specification {c['status']}"
        elif ds is not None:
            rows = c["rows"]
            rowmap = {int(k): v for k, v in rows.items()} if isinstance(rows, dict) else {i + 1: v for i, v in enumerate(rows)}
            for apid, rr in rowmap.items():
                want = [ids[(x[0], x[1])] for x in rr]
                if not want:
                    if apid in ds:
                        prob = f"dataset for APID {apid} although it has no packets"
                    continue
                if apid not in ds:
                    prob = f"no dataset for APID {apid}"
                    break
                have = [int(x) for x in ds[apid]["ID"].values]
                if have != want:
                    prob = f"APID {apid}: rows (packet ids) {have}, specification {want}"
                    break
                fs = c["files"][rr[0][0] - 1][rr[0][1] - 1]["fs"]
                vars_ = set(ds[apid].data_vars)
                wantvars = {nm for nm, _ in HDR} | {"SEL", "ID"} | ({"XA", "ZA"} if fs == "a" else {"YB", "WB"})
                if vars_ != wantvars:
                    prob = f"APID {apid}: variables {sorted(vars_)} != {sorted(wantvars)}"
                    break
                # every cell is that packet's value of that parameter, whatever order its layout lists the parameters in
                for row, pid_ in enumerate(want):
                    for nm, val in cellvals[pid_].items():
                        if int(ds[apid][nm].values[row]) != val:
                            prob = f"APID {apid} row {row} (packet {pid_}): {nm} = {int(ds[apid][nm].values[row])}, the packet has {val}"
                            break
                    if prob:
                        break
                if prob:
                    break
        for pth in paths:
            os.unlink(pth)
        if prob:
            ctx.violation("C18/structure/" + ("rejection" if "specification built" in prob or "specification rejected" in prob else "rows"), prob, {"files": c["files"]})
        elif c["status"] == "built" and nid >= 3 and len(c["files"]) == 2:
            ctx.sample({"files": c["files"], "rows": c["rows"], "status": c["status"]}, limit=2)
    # ---- value level
    d = xdoc.new_defn("ROOT")
    for nm, w in HDR:
        xdoc.add_param(d, nm, uint(w))
    xdoc.add_container(d, "ROOT", [("p", nm) for nm, _ in HDR], abstract=True)
    layouts = value_layouts()
    for apid, fields in layouts:
        for nm, pt, w in fields:
            xdoc.add_param(d, nm, pt)
        total = sum(w for _, _, w in fields)
        ents = [("p", nm) for nm, _, _ in fields]
        if total % 8:
            xdoc.add_param(d, f"PADEND{apid}", uint(8 - total % 8))
            ents.append(("p", f"PADEND{apid}"))
        xdoc.add_container(d, f"L{apid}", ents, base="ROOT", crit_list=[cmp("APID", "==", apid)])
    vobj = xdoc.load(d)
    npk = 10 if q else 40
    files_pk = [[], [], []]
    seq = 0
    for k in range(npk):
        for apid, fields in layouts:
            bits = []
            for nm, pt, w in fields:
                if nm == "STR":
                    b = STR_SAMPLES[k % len(STR_SAMPLES)].ljust(6, b"\x00")[:6]
                    bits += [int(c) for by in b for c in format(by, "08b")]
                elif nm == "BIN":
                    bits += [int(c) for by in BIN_SAMPLES[k % len(BIN_SAMPLES)] for c in format(by, "08b")]
                elif nm == "LAT":
                    bits += [int(c) for by in LAT_SAMPLES[k % len(LAT_SAMPLES)] for c in format(by, "08b")]
                elif nm == "NB":
                    nb = (k * 3 + 1) % 8
                    bits += [int(c) for c in format(nb, "03b")]
                elif nm == "BDYN":
                    bits += [1] + [rng.getrandbits(1) for _ in range(4 * nb + 4 - 2)] + [1]
                elif nm == "EN":
                    bits += [int(c) for c in format(k % 4, "02b")]
                elif nm == "ENS":
                    bits += [int(c) for c in format([255, 0, 1, 128, 127][k % 5], "08b")]
                else:
                    bits += patterns(nm, w, rng, k)
            bits += [0] * ((-len(bits)) % 8)
            data = bytes(int("".join(map(str, bits[i:i + 8])), 2) for i in range(0, len(bits), 8))
            seq += 1
            files_pk[(k * len(layouts) + apid) % 3].append(defs.mk_packet(data, apid=apid, seq=seq % 16384))
    paths = write_files(tmp, files_pk, "v")
    ncell = 0
    for raw_mode in (False, True):
        with warnings.catch_warnings():
            warnings.simplefilter("ignore")
            want = {}
            for pth in paths:
                with open(pth, "rb") as f:
                    for pk in vobj.packet_generator(f, root_container_name="ROOT"):
                        want.setdefault(pk.raw_data.apid, []).append(pk)
            try:
                ds = xarr.create_dataset(paths, vobj, use_raw_values=raw_mode, root_container_name="ROOT")
            except Exception as e:  # noqa: BLE001
                ctx.violation(f"C18/values/{'raw' if raw_mode else 'derived'}/create_dataset-raised-{type(e).__name__}", f"{type(e).__name__}: {e}"[:300],
                              {"mode": "raw" if raw_mode else "derived"})
                continue
        for apid, pks in want.items():
            if apid not in ds or len(ds[apid]["VERSION"].values) != len(pks):
                ctx.violation("C18/values/rows", f"APID {apid}: {len(pks)} packets but dataset has {len(ds[apid]['VERSION'].values) if apid in ds else 'no'} rows", {"apid": apid})
                continue
            for name in pks[0].keys():
                if name not in ds[apid]:
                    ctx.violation("C18/values/missing-variable", f"APID {apid}: no variable {name}", {"apid": apid, "name": name})
                    continue
                col = ds[apid][name].values
                for r_, pk in enumerate(pks):
                    w_ = pk[name].raw_value if raw_mode else pk[name]
                    ncell += 1
                    if ncell % 7 == 0:
                        ctx.count(("cell", apid, name, r_, raw_mode))
                    if not cell_equal(col[r_], w_):
                        c = col[r_]
                        cv = c.item() if isinstance(c, np.generic) else c
                        if isinstance(w_, (bytes, str)) and isinstance(cv, bytes if isinstance(w_, bytes) else str) and \
                                (w_.endswith(b"\x00") if isinstance(w_, bytes) else str(w_).endswith("\x00")) and \
                                cv == (w_.rstrip(b"\x00") if isinstance(w_, bytes) else str(w_).rstrip("\x00")):
                            ctx.violation(f"C18/cell/trailing-NUL-stripped/{'bytes' if isinstance(w_, bytes) else 'str'}",
                                          f"{name} row {r_}: cell {cv!r} lost the trailing NULs of {w_!r} (dtype {col.dtype})", {"name": name, "mode": "raw" if raw_mode else "derived"})
                        else:
                            ctx.violation(f"C18/cell/{'raw' if raw_mode else 'derived'}/{name[:3]}", f"{name} row {r_}: cell {cv!r} (dtype {col.dtype}) != parsed {'raw ' if raw_mode else ''}value {w_!r}",
                                          {"name": name, "mode": "raw" if raw_mode else "derived", "apid": apid, "row": r_})
    same_names_section(ctx, tmp)
    edges_section(ctx, tmp)
    forwarding_section(ctx, tmp)
    forwarding_segments(ctx, tmp)
    ctx.traces += 2
    ctx.evaluations += ncell
    ctx.extra["cells_compared"] = ncell
    ctx.sample({"value_layout_variables": [nm for _, fs in layouts for nm, _, _ in fs][:30], "packets_per_apid": npk, "files": 3}, limit=3)


def same_names_section(ctx, tmp):
    """Several definitions used in one process may well give the same names to different things: a dataset is a function of the
    definition and the files it is built from, not of what was built before. Three definitions share every parameter and type name
    (V, W of APID 20) but encode them differently; datasets are built in the order A, B, C, A, B, raw and derived."""
    import numpy as np
    from space_packet_parser import xarr
    from harness.calib import rat as _rat
    variants = {
        "A": (uint(8), uint(16)),
        "B": (xdoc.ptype_num("float", xdoc.numeric_enc("flt", 64)), xdoc.ptype_num("int", xdoc.numeric_enc("int", 8), {"default": poly([(_rat(7, 4), 0), (_rat(1, 2), 1)]), "context": []})),
        "C": (uint(72), xdoc.ptype_num("float", xdoc.numeric_enc("flt", 32, fmt="mil1750a"))),
    }
    built = {}
    for tag, (tv, tw) in variants.items():
        d = xdoc.new_defn("ROOT")
        for nm, w in HDR:
            xdoc.add_param(d, nm, uint(w))
        xdoc.add_param(d, "V", tv)
        xdoc.add_param(d, "W", tw)
        xdoc.add_container(d, "ROOT", [("p", nm) for nm, _ in HDR], abstract=True)
        xdoc.add_container(d, "L20", [("p", "V"), ("p", "W")], base="ROOT", crit_list=[cmp("APID", "==", 20)])
        nbytes = (tv["enc"]["w"] + tw["enc"]["w"]) // 8
        pks = []
        for k in range(6):
            body = bytes([(0xFF, 0x00, 0x80, 0x7F, 0x01, 0x3C)[k]] * nbytes) if k < 5 else bytes(range(1, nbytes + 1))
            pks.append(defs.mk_packet(body, apid=20, seq=k))
        built[tag] = (xdoc.load(d), write_files(tmp, [pks], "same-" + tag))
    for tag in ("A", "B", "C", "A", "B"):
        dobj, paths = built[tag]
        for raw_mode in (False, True):
            with warnings.catch_warnings():
                warnings.simplefilter("ignore")
                with open(paths[0], "rb") as f:
                    want = list(dobj.packet_generator(f, root_container_name="ROOT"))
                try:
                    ds = xarr.create_dataset(paths, dobj, use_raw_values=raw_mode, root_container_name="ROOT")
                except Exception as e:  # noqa: BLE001
                    ctx.violation("C18/same-names/raised", f"definition {tag} ({'raw' if raw_mode else 'derived'}): {type(e).__name__}: {e}"[:300], {"variant": tag})
                    continue
            ctx.traces += 1
            ctx.count(("same-names", tag, raw_mode))
            for nm in ("V", "W"):
                col = ds[20][nm].values
                for r_, pk in enumerate(want):
                    w_ = pk[nm].raw_value if raw_mode else pk[nm]
                    if not cell_equal(col[r_], w_):
                        c = col[r_]
                        ctx.violation("C18/same-names/cell", f"definition {tag} ({'raw' if raw_mode else 'derived'}) built after other definitions with the "
                                      f"same names: {nm} row {r_} = {c.item() if isinstance(c, np.generic) else c!r} (dtype {col.dtype}), parsed {w_!r}",
                                      {"variant": tag, "name": nm, "row": r_})
                        break


def edges_section(ctx, tmp):
    """The ends of the input space: the smallest files there are (one packet of one data byte: 7 bytes; an empty file between
    others), and the whole APID range including its two ends (0, 2047) next to ordinary ones. One layout for every APID (a
    concrete root: header + one byte), so every packet of every file is a row of its APID's dataset, in the order of the files."""
    from space_packet_parser import xarr
    d = xdoc.new_defn("ROOT")
    for nm, w in HDR:
        xdoc.add_param(d, nm, uint(w))
    xdoc.add_param(d, "V", uint(8))
    xdoc.add_container(d, "ROOT", [("p", nm) for nm, _ in HDR] + [("p", "V")])
    dobj = xdoc.build(d)
    rng = ctx.rng
    apids = [0, 1, 2046, 2047, 1024, 5]
    lists = [[[a]] for a in apids]                                          # one file holding one minimal packet
    lists += [[[a], [b]] for a in apids[:4] for b in apids[:4]]             # two such files
    lists += [[[2047, 0, 2047], [], [0]], [[], [5]], [[1], [], [1], [2047]], [[0, 1, 2046, 2047, 0, 1, 2046, 2047]]]
    for _ in range(10 if ctx.quick else 200):
        lists.append([[rng.choice(apids) for _ in range(rng.choice([0, 1, 1, 2, 3]))] for _ in range(rng.choice([1, 2, 3, 4]))])
    for li, files in enumerate(lists):
        n, want, files_pk = 0, {}, []
        for f in files:
            pks = []
            for a in f:
                n += 1
                v = (37 * n + 11) % 256
                pks.append(defs.mk_packet(bytes([v]), apid=a, seq=n))
                want.setdefault(a, []).append((n, v))
            files_pk.append(pks)
        if not want:
            continue
        paths = write_files(tmp, files_pk, f"edge{li}")
        ctx.traces += 1
        ctx.count(("edges", json.dumps(files)))
        prob = None
        try:
            with warnings.catch_warnings():
                warnings.simplefilter("ignore")
                ds = xarr.create_dataset(paths, dobj, root_container_name="ROOT")
            if set(ds) != set(want):
                prob = f"datasets for APIDs {sorted(ds)}; the files hold packets of APIDs {sorted(want)}"
            else:
                for a, rows in want.items():
                    have = [(int(x), int(y)) for x, y in zip(ds[a]["SEQC"].values, ds[a]["V"].values)]
                    if have != rows:
                        prob = f"APID {a}: rows (sequence count, V) {have}; the files hold {rows}"
                        break
        except Exception as e:  # noqa: BLE001
            prob = f"create_dataset raised {type(e).__name__}: {e}"[:300]
        for pth in paths:
            os.unlink(pth)
        if prob:
            ctx.violation("C18/edges/" + ("datasets" if prob.startswith("datasets") else "raised" if "raised" in prob else "rows"),
                          f"files (APID of each one-data-byte packet) {files}: {prob}", {"files": files})


def forwarding_section(ctx, tmp):
    """Keyword options are handed to the packet generator unchanged (also falsy ones): the rows of a dataset are the packets the
    generator yields for the same files with the same options - bad-length packets withheld when parse_bad_pkts=False, prefixes
    skipped with skip_header_bytes."""
    from space_packet_parser import xarr
    sobj = xdoc.build(structure_defn())
    for prefix in (0, 4):
        files_pk, nid = [], 0
        for fi in range(2):
            pks = []
            for _ in range(5):
                nid += 1
                pkb, _vals = structure_packet("a", nid, 1 + fi % 2)
                if nid % 4 == 0:                       # one byte too many: parses, but the length does not match
                    pkb = defs.mk_packet(bytes(pkb[6:]) + b"\x00", apid=1 + fi % 2, seq=nid)
                pks.append(bytes(prefix) + pkb)
            files_pk.append(pks)
        paths = write_files(tmp, files_pk, f"fwd{prefix}")
        for kw in ({}, {"parse_bad_pkts": False}, {"parse_bad_pkts": True}):
            kw = dict(kw, skip_header_bytes=prefix) if prefix else kw
            with warnings.catch_warnings():
                warnings.simplefilter("ignore")
                want = {}
                for pth in paths:
                    with open(pth, "rb") as f:
                        for pk in sobj.packet_generator(f, root_container_name="ROOT", **kw):
                            want.setdefault(pk.raw_data.apid, []).append(int(pk["ID"]))
                try:
                    ds = xarr.create_dataset(paths, sobj, root_container_name="ROOT", **kw)
                    got = {a: [int(x) for x in ds[a]["ID"].values] for a in ds}
                except Exception as e:  # noqa: BLE001
                    got = f"{type(e).__name__}: {e}"[:200]
            ctx.traces += 1
            ctx.count(("forwarding", prefix, json.dumps(kw, sort_keys=True)))
            if got != want:
                ctx.violation("C18/options-not-forwarded", f"create_dataset(..., {kw}) has rows (packet ids) {got}; the packet generator with the same "
                              f"options yields {want}", {"kw": kw, "prefix": prefix})


def forwarding_segments(ctx, tmp):
    """... also the segment options: a file of FIRST / CONTINUATION / LAST groups with a 2-byte secondary header in every segment"""
    from space_packet_parser import xarr
    d = xdoc.new_defn("ROOT")
    for nm, w in HDR:
        xdoc.add_param(d, nm, uint(w))
    xdoc.add_param(d, "SH", uint(16))
    for i in range(6):
        xdoc.add_param(d, f"D{i}", uint(8))
    xdoc.add_container(d, "ROOT", [("p", nm) for nm, _ in HDR] + [("p", "SH")] + [("p", f"D{i}") for i in range(6)])
    dobj = xdoc.build(d)
    pks = []
    for g in range(4):
        base = 10 * g
        pks.append(defs.mk_packet(bytes([0xEE, 0xEE, base + 1, base + 2]), apid=30, flags=1, seq=3 * g))
        pks.append(defs.mk_packet(bytes([0xEE, 0xEE, base + 3, base + 4]), apid=30, flags=0, seq=3 * g + 1))
        pks.append(defs.mk_packet(bytes([0xEE, 0xEE, base + 5, base + 6]), apid=30, flags=2, seq=3 * g + 2))
    paths = write_files(tmp, [pks], "fwdseg")
    for kw in ({"combine_segmented_packets": True, "secondary_header_bytes": 2}, {"combine_segmented_packets": True, "secondary_header_bytes": 0},
               {"combine_segmented_packets": False}):
        with warnings.catch_warnings():
            warnings.simplefilter("ignore")
            with open(paths[0], "rb") as f:
                want = [[int(pk[f"D{i}"]) for i in range(6) if f"D{i}" in pk] for pk in dobj.packet_generator(f, root_container_name="ROOT", **kw)]
            try:
                ds = xarr.create_dataset(paths, dobj, root_container_name="ROOT", **kw)
                got = [[int(ds[30][f"D{i}"].values[r]) for i in range(6) if f"D{i}" in ds[30]] for r in range(len(ds[30]["VERSION"].values))] if 30 in ds else []
            except Exception as e:  # noqa: BLE001
                got = f"{type(e).__name__}: {e}"[:200]
        ctx.traces += 1
        ctx.count(("forwarding-segments", json.dumps(kw, sort_keys=True)))
        if got != want:
            ctx.violation("C18/options-not-forwarded", f"create_dataset(..., {kw}) has rows {got}; the packet generator with the same options yields {want}",
                          {"kw": kw, "segments": True})


def replay(ctx, obj):
    print("C18 replays by re-running the check; case:", obj)
