"""C14 - bit consumption is accounted for; over-reads are never delivered as clean data."""
from harness import crit, defs, strbin, xdoc
from harness.props import decode_common as dc
from harness.props.c05 import ROUTES

META = {"title": "Bit consumption is accounted for; over-reads are never delivered as clean data"}
HDR = [("VERSION", 3), ("TYPE", 1), ("SHF", 1), ("APID", 11), ("SEQF", 2), ("SEQC", 14), ("PLEN", 16)]


def uint(w, enc="unsigned", order="msb"):
    return xdoc.ptype_num("int", xdoc.numeric_enc("int", w, enc, order))


def header_defn():
    d = xdoc.new_defn("ROOT")
    for nm, w in HDR:
        xdoc.add_param(d, nm, uint(w))
    return d, [("p", nm) for nm, _ in HDR]


def dyn(ref, cal, slope=None, icpt=0):
    return {"k": "dyn", "ref": ref, "cal": cal, "adj": slope is not None, "slope": slope or 0, "icpt": icpt}


def binp(ls):
    return xdoc.ptype_sb({"k": "bin", "len": ls, "delim": {"k": "whole", "tc": [], "tag": 0, "unit": 1}, "codec": ""})


def strp(ls, delim=None, codec="ISO-8859-1"):
    return xdoc.ptype_sb({"k": "str", "len": ls, "delim": delim or {"k": "whole", "tc": [], "tag": 0, "unit": 1}, "codec": codec})


def layouts():
    """(name, definition). User data layouts: fixed; length-dependent with adjusters whose intercepts can make the width negative;
    unaligned tails; float and string fields at the end (their read paths differ)."""
    out = []
    d, hdr = header_defn()
    xdoc.add_param(d, "A", uint(8))
    xdoc.add_param(d, "B", uint(12))
    xdoc.add_param(d, "C", uint(4))
    xdoc.add_container(d, "ROOT", hdr + [("p", "A"), ("p", "B"), ("p", "C")])
    out.append(("fixed-24", d))
    d, hdr = header_defn()
    xdoc.add_param(d, "A", uint(8))
    xdoc.add_param(d, "F", xdoc.ptype_num("float", xdoc.numeric_enc("flt", 32)))
    xdoc.add_container(d, "ROOT", hdr + [("p", "A"), ("p", "F")])
    out.append(("fixed-float-tail", d))
    for order in ("msb", "lsb"):
        d, hdr = header_defn()
        xdoc.add_param(d, "A", uint(8))
        xdoc.add_param(d, "M", xdoc.ptype_num("float", xdoc.numeric_enc("flt", 32, order=order, fmt="mil1750a")))
        xdoc.add_param(d, "F64", xdoc.ptype_num("float", xdoc.numeric_enc("flt", 64, order=order)))
        xdoc.add_container(d, "ROOT", hdr + [("p", "A"), ("p", "M")])
        out.append((f"1750a-float-tail-{order}", d))
        d2, hdr2 = header_defn()
        xdoc.add_param(d2, "A", uint(8))
        xdoc.add_param(d2, "F64", xdoc.ptype_num("float", xdoc.numeric_enc("flt", 64, order=order)))
        xdoc.add_container(d2, "ROOT", hdr2 + [("p", "A"), ("p", "F64")])
        out.append((f"double-tail-{order}", d2))
    d, hdr = header_defn()
    xdoc.add_param(d, "A", uint(3))
    xdoc.add_param(d, "W", uint(16))
    xdoc.add_container(d, "ROOT", hdr + [("p", "A"), ("p", "W")])
    out.append(("unaligned-int-tail", d))
    for slope, icpt in ((8, 0), (8, -16), (8, -8), (1, -5), (8, 8)):
        d, hdr = header_defn()
        xdoc.add_param(d, "L", uint(8))
        xdoc.add_param(d, "BLOB", binp(dyn("L", False, slope, icpt)))
        xdoc.add_param(d, "TAIL", uint(16))
        xdoc.add_container(d, "ROOT", hdr + [("p", "L"), ("p", "BLOB"), ("p", "TAIL")])
        out.append((f"dyn-bin-{slope}x{icpt:+d}-tail16", d))
    d, hdr = header_defn()
    xdoc.add_param(d, "L", uint(8))
    xdoc.add_param(d, "BLOB", binp(dyn("L", False, 8, 0)))
    xdoc.add_container(d, "ROOT", hdr + [("p", "L"), ("p", "BLOB")])
    out.append(("dyn-bin-last", d))
    d, hdr = header_defn()
    xdoc.add_param(d, "L", uint(8))
    xdoc.add_param(d, "BLOB", binp(dyn("L", True, 8, 0)))
    xdoc.add_param(d, "FIXB", binp({"k": "fixed", "n": 16}))
    xdoc.add_container(d, "ROOT", hdr + [("p", "L"), ("p", "BLOB"), ("p", "FIXB")])
    out.append(("dyn-bin-then-fixed-bin", d))
    d, hdr = header_defn()
    xdoc.add_param(d, "L", uint(8))
    xdoc.add_param(d, "S", strp(dyn("L", False, 8, 0)))
    xdoc.add_container(d, "ROOT", hdr + [("p", "L"), ("p", "S")])
    out.append(("dyn-str-last", d))
    d, hdr = header_defn()
    xdoc.add_param(d, "A", uint(8))
    xdoc.add_param(d, "FIXB", binp({"k": "fixed", "n": 32}))
    xdoc.add_container(d, "ROOT", hdr + [("p", "A"), ("p", "FIXB")])
    out.append(("fixed-bin-last", d))
    d, hdr = header_defn()
    xdoc.add_param(d, "L", uint(8, "signed"))
    xdoc.add_param(d, "S", strp(dyn("L", True, 8, 0)))
    xdoc.add_param(d, "T8", uint(8))
    xdoc.add_container(d, "ROOT", hdr + [("p", "L"), ("p", "S"), ("p", "T8")])
    out.append(("dyn-str-signed-len", d))
    # little-endian whole-byte integers at the end of the layout (their read path swaps bytes)
    d, hdr = header_defn()
    xdoc.add_param(d, "A", uint(8))
    xdoc.add_param(d, "LE16", uint(16, order="lsb"))
    xdoc.add_param(d, "LE32", uint(32, "twosComplement", "lsb"))
    xdoc.add_container(d, "ROOT", hdr + [("p", "A"), ("p", "LE16"), ("p", "LE32")])
    out.append(("little-endian-int-tail", d))
    d, hdr = header_defn()
    xdoc.add_param(d, "A", uint(4))
    xdoc.add_param(d, "LE24", uint(24, order="lsb"))
    xdoc.add_container(d, "ROOT", hdr + [("p", "A"), ("p", "LE24")])
    out.append(("little-endian-unaligned-tail", d))
    # inheritance: a packet may end exactly where one container's entries end and its (selected) inheritor's begin
    for root_abstract in (False, True):
        d, hdr = header_defn()
        for nm, w in (("A", 8), ("B", 12), ("C", 4), ("D", 8)):
            xdoc.add_param(d, nm, uint(w))
        always = lambda ref: {"k": "cmp", "ref": ref, "op": ">=", "cal": True, "lit": crit.lit_num(False, 0)}
        xdoc.add_container(d, "ROOT", hdr + [("p", "A")], abstract=root_abstract)
        xdoc.add_container(d, "CH", [("p", "B"), ("p", "C")], base="ROOT", crit_list=[always("A")])
        xdoc.add_container(d, "GC", [("p", "D")], base="CH", crit_list=[always("C"), {"k": "cmp", "ref": "A", "op": "!=", "cal": True, "lit": crit.lit_num(False, 255)}])
        out.append(("inheritance-chain" + ("-abstract-root" if root_abstract else ""), d))
    d, hdr = header_defn()
    xdoc.add_param(d, "REST", binp(dyn("PLEN", True, 8, 8)))       # the whole data field: 8*(PLEN+1) bits
    xdoc.add_container(d, "ROOT", hdr + [("p", "REST")])
    out.append(("rest-of-packet", d))
    d, hdr = header_defn()
    xdoc.add_param(d, "REST", binp(dyn("PLEN", True, 8, 0)))       # off by one byte: always one byte short
    xdoc.add_container(d, "ROOT", hdr + [("p", "REST")])
    out.append(("rest-of-packet-minus-one", d))
    return out


def run(ctx):
    q = ctx.quick
    rng = ctx.rng
    ctx.rule = ("Decode.tla walk + generator-level classification (Trace_Decode!GenClause) run by TLC on fixed and length-dependent layouts "
                "(binary / string widths 8*L+b with negative intercepts, signed length references, unaligned integer tails, float tails, "
                "rest-of-packet, three-level inheritance chains whose containers end on packet boundaries) x well-formed CCSDS packets whose data field is shorter than / equal to / longer than what the layout "
                "consumes x every value of the length byte that matters (incl. those making a width negative). Each packet is run alone "
                "through the real packet_generator with parse_bad_pkts True and False; observed (items, warning, exception) must match "
                "the classification of the model's end state: clean iff status ok and cursor = packet bits; poisoned (out-of-bounds or "
                "negative-width read) never clean. The packets that parse to the end are also sent as one stream through one generator (every "
                "mis-sized one flagged, all of them withheld when excluded). distinct = (layout, route, packet).")
    ctx.assumptions = ["packets are well-formed CCSDS packets (length field consistent with their size)",
                       "after an out-of-bounds or negative-width read the specification only demands 'not clean' (exception, or flagged "
                       "and withheld when bad packets are excluded); the garbage values are not compared"]
    groups = []
    for li, (name, d) in enumerate(layouts()):
        pk = []
        for datalen in (1, 2, 3, 4, 5, 6, 7, 8, 9, 12):
            for _ in range(10 if q else 60):
                body = [rng.getrandbits(8) for _ in range(datalen)]
                lens = [0, 1, 2, 3, datalen - 1, datalen, datalen - 3, 255, 254, 128, 127]
                body[0] = rng.choice(lens) % 256
                pk.append(list(defs.mk_packet(bytes(body), apid=rng.randrange(2048), seq=rng.randrange(16384))))
        for r in ROUTES:
            groups.append({"defn": d, "pkts": pk, "route": r, "label": name})
    ctx.extra["layouts"] = len(layouts())
    col = []
    st = dc.run_groups(ctx, "C14", groups, "classify", gen_level=True, collect=col)
    ctx.extra["model_status_counts"] = st
    t = ctx.extra.get("tallies", {})
    for need in ("classify_status_ok_exact", "classify_status_ok_inexact", "classify_status_poisoned"):
        if not t.get(need):
            ctx.vacuity(f"no case reached {need}")
    # ---- the same classification when the packets come in ONE stream through ONE generator: every packet that parses to the end but
    # does not consume exactly its bits is flagged, each of them (not only the first of its kind), and withheld when bad packets are excluded
    import io
    import warnings
    from harness import core
    bylabel = {}
    for ln, pi, status, exact in col:
        if status == "ok":
            bylabel.setdefault((ln["label"], tuple(ln["route"])), [ln, []])[1].append((pi, bool(exact)))
    nstreams = 0
    for (label, route), (ln, members) in bylabel.items():
        members = members[:60]
        if len(members) < 4:
            continue
        stream = b"".join(bytes(ln["pkts"][pi]) for pi, _ in members)
        try:
            dobj = xdoc.make(ln["defn"], tuple(route))
        except Exception:  # noqa: BLE001
            continue
        nbad = sum(1 for _, ex in members if not ex)
        for flag in (True, False):
            with warnings.catch_warnings(record=True) as w:
                warnings.simplefilter("always")
                try:
                    n_y = sum(1 for _ in dobj.packet_generator(io.BytesIO(stream), parse_bad_pkts=flag, root_container_name=ln["defn"]["root"]))
                except Exception as e:  # noqa: BLE001
                    n_y = f"raised {type(e).__name__}"
            want_y = len(members) if flag else len(members) - nbad
            nstreams += 1
            ctx.traces += 1
            if n_y != want_y or core.flag_warnings(w) != nbad:
                ctx.violation(f"C14/stream/{'flagged' if flag else 'withheld'}", f"layout {label} via {route}: a stream of {len(members)} packets of which {nbad} "
                              f"do not consume exactly their bits, parse_bad_pkts={flag}: {n_y} yielded (expected {want_y}), "
                              f"{core.flag_warnings(w)} length-mismatch warnings (expected {nbad})",
                              {"defn": ln["defn"], "route": list(route), "pkts": [ln["pkts"][pi] for pi, _ in members], "stream": True})
    ctx.extra["streams_classified"] = nstreams
    ctx.exhaustive = False
    for ln, pi, status, exact in col:
        if status == "poisoned":
            ctx.sample({"layout": ln["label"], "route": ln["route"], "packet": ln["pkts"][pi], "model": "poisoned", "observed": ln["obs"][pi]["gen"]}, limit=2)
            break
    for ln, pi, status, exact in col:
        if status == "ok" and not exact:
            ctx.sample({"layout": ln["label"], "route": ln["route"], "packet": ln["pkts"][pi], "model": "ok, cursor != packet bits",
                        "observed": ln["obs"][pi]["gen"]}, limit=4)
            break


def replay(ctx, obj):
    if obj.get("stream"):
        print("stream-level case: packets are replayed one by one; re-run the check for the stream-level comparison")
        for pk in obj["pkts"][:20]:
            g = {"defn": obj["defn"], "pkts": [pk], "route": tuple(obj.get("route", ["obj"])), "label": "replay"}
            dc.run_groups(ctx, "C14", [g], "replay", jobs=1, gen_level=True)
        return
    g = {"defn": obj["defn"], "pkts": [obj["pkt"]], "route": tuple(obj.get("route", ["obj"])), "label": "replay"}
    print(dc.run_groups(ctx, "C14", [g], "replay", jobs=1, gen_level=True))
