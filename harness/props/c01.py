"""C01 - end-to-end decoding conforms to the XTCE document for every stream."""
import io
import warnings

from harness import gendefs, xdoc
from harness.props import decode_common as dc
from harness.props.c05 import ROUTES

META = {"title": "End-to-end decoding conforms to the XTCE document for every stream"}


def stream_level(ctx, dobj, d, pkts, obs_list, route):
    """The whole stream through packet_generator in one go must give, in order, exactly the per-packet results
    (which TLC has validated against the specification): recognised packets as parsed packets, the rest skipped."""
    from space_packet_parser.exceptions import UnrecognizedPacketTypeError
    data = b"".join(bytes(p) for p in pkts)
    want = []
    stop_at = None
    for i, o in enumerate(obs_list):
        if o["outcome"] == "exc":
            stop_at = i            # a field error ends the generator: nothing is claimed after it
            break
        want.append((i, o))
    got = []
    with warnings.catch_warnings():
        warnings.simplefilter("ignore")
        try:
            for it in dobj.packet_generator(io.BytesIO(data), yield_unrecognized_packet_errors=True, root_container_name=d["root"]):
                got.append(it)
                if len(got) > len(pkts) + 2:
                    break
        except Exception as e:  # noqa: BLE001
            if stop_at is None:
                return f"stream raised {type(e).__name__}: {e} although every packet parses or is unrecognised on its own"
    if len(got) < len(want) or (stop_at is None and len(got) != len(want)):
        return f"stream yielded {len(got)} items, per-packet results give {len(want)}"
    for (i, o), it in zip(want, got):
        if isinstance(it, UnrecognizedPacketTypeError):
            if o["outcome"] != "unrec":
                return f"item {i}: unrecognized error object where the packet parses on its own"
            items = [xdoc.typed_item(d, k, v) for k, v in (it.partial_data or {}).items()]
        else:
            if o["outcome"] != "ok":
                return f"item {i}: parsed packet where the packet is unrecognised on its own"
            if bytes(it.raw_data) != bytes(pkts[i]):
                return f"item {i}: not stream packet {i}"
            items = [xdoc.typed_item(d, k, v) for k, v in it.items()]
        if items != o["items"]:
            return f"item {i}: values differ from parsing the packet on its own"
    return None


MISSIONS = [
    ("jpss/jpss1_geolocation_xtce_v1.xml", "jpss/J01_G011_LZ_2021-04-09T00-00-00Z_V01.DAT1", "CCSDSPacket", 0),
    ("jpss/contrived_inheritance_structure.xml", "jpss/J01_G011_LZ_2021-04-09T00-00-00Z_V01.DAT1", "CCSDSPacket", 0),
    ("test_xtce.xml", "jpss/J01_G011_LZ_2021-04-09T00-00-00Z_V01.DAT1", "CCSDSPacket", 0),
    ("suda/suda_combined_science_definition.xml", "suda/sciData_2022_130_17_41_53.spl", "CCSDSPacket", 4),
    ("idex/idex_combined_science_definition.xml", "idex/sciData_2023_052_14_45_05", "CCSDSPacket", 4),
    ("ctim/ctim_xtce_v1.xml", "ctim/ccsds_2021_155_14_39_51", "CCSDSTelemetryPacket", 0),
]
TD = "/repo/tests/test_data/"


def frame(path, skip, per_apid, cap):
    """first `per_apid` packets of every APID (framed by the harness, not by the library)"""
    raw = open(path, "rb").read()
    out, seen, off = [], {}, 0
    while off + skip + 6 <= len(raw) and len(out) < cap:
        st = off + skip
        n = 7 + raw[st + 4] * 256 + raw[st + 5]
        if st + n > len(raw):
            break
        apid = ((raw[st] & 7) << 8) | raw[st + 1]
        if seen.get(apid, 0) < per_apid:
            seen[apid] = seen.get(apid, 0) + 1
            out.append(list(raw[st:st + n]))
        off = st + n
    return out


def mission_groups(q):
    from harness import xread
    groups = []
    for xml, data, root, skip in MISSIONS:
        if q and "ctim" in xml:
            continue         # 9 500 parameters, ~250 fields per packet: minutes of TLC time; thorough tier only
        d = xread.read(TD + xml, root)
        head = open(TD + xml, "rb").read(3000).decode("utf-8", "ignore")
        prefix = "xtce" if 'xmlns:xtce="' in head else ""
        big = "suda" in xml or "idex" in xml or "ctim" in xml
        pk = frame(TD + data, skip, (3 if big else 40) if q else (25 if big else 400), 60 if q and big else (120 if q else 3000))
        groups.append({"defn": d, "pkts": pk, "route": ("file", TD + xml, prefix, root), "label": "mission:" + xml})
    return groups


def run(ctx):
    q = ctx.quick
    rng = ctx.rng
    ctx.rule = ("Random definitions in the supported subset (CCSDS header root; 1-4 APID branches with 1-2 further inheritance levels and "
                "overlapping criteria; a shared nested container; fields: unsigned/signed ints 1..72 bits in both byte orders, IEEE 16/32/64 "
                "and 1750A floats, enumerations, booleans, calibrated ints with context calibrators, time types, binary and string fields "
                "with fixed / referenced / looked-up lengths and all delimiters and codecs) x packets built by a steering encoder towards a "
                "chosen leaf and then mutated (truncated / extended / bit flips). Every packet is decoded by the real library (definition "
                "built by constructors or loaded from XML in 3 spellings), and the Decode.tla walk is run on it by TLC: items, order, exact "
                "values, raw values, classes, views, outcome, cursor, and the generator-level classification. The whole stream is also run "
                "through packet_generator and compared with the per-packet results. distinct = (definition, route, packet).")
    ctx.assumptions = ["values referenced by criteria / lengths / calibrators lie in the exact small domain (<= 20 bits, dyadic); otherwise the "
                       "case is 'undefined' and accepted", "character codecs are trusted (text compared as re-encoded bytes)",
                       "the steering encoder is untrusted: it only chooses inputs"]
    ndefs = 120 if q else 1500
    npk = 24 if q else 40
    groups = []
    for i in range(ndefs):
        g = gendefs.DefGen(rng).build()
        pk = [g.packet() for _ in range(npk)]
        groups.append({"defn": g.d, "pkts": pk, "route": ROUTES[i % len(ROUTES)], "label": f"random-{i}"})
    col = []
    st = dc.run_groups(ctx, "C01", groups, "e2e", gen_level=True, collect=col)
    # ---- the bundled and mission documents through the independent XTCE reader (harness/xread.py), recorded packets
    mg = mission_groups(q)
    mst = dc.run_groups(ctx, "C01", mg, "mission", gen_level=True, jobs=len(mg), lines_per_file=1)
    ctx.extra["mission_status_counts"] = mst
    ctx.extra["mission_packets"] = {g["label"]: len(g["pkts"]) for g in mg}
    ctx.extra["model_status_counts"] = st
    ctx.extra["definitions"] = ndefs
    if st.get("ok", 0) < ndefs:
        ctx.vacuity(f"too few packets decoded to the end: {st}")
    # field-kind coverage of packets that decoded to the end
    kinds = {}
    for ln, pi, status, exact in col:
        if status == "ok":
            for it in ln["obs"][pi]["items"]:
                kinds[it["cls"]] = kinds.get(it["cls"], 0) + 1
    ctx.extra["decoded_items_by_class"] = kinds
    # stream level
    ns = 0
    for gi, g in enumerate(groups):
        try:
            dobj = xdoc.make(g["defn"], g["route"])
        except Exception:  # noqa: BLE001
            continue
        obs = [None] * len(g["pkts"])
        for ln, pi, status, exact in col:
            if ln["label"] == g["label"]:
                obs[pi] = ln["obs"][pi]
        if any(o is None for o in obs):
            continue
        prob = stream_level(ctx, dobj, g["defn"], g["pkts"], obs, g["route"])
        ns += 1
        ctx.traces += 1
        if prob:
            ctx.violation("C01/stream/" + prob.split(":")[0][:30].replace(" ", "-"), prob, {"defn": g["defn"], "pkts": g["pkts"], "route": list(g["route"])})
    ctx.extra["streams_compared"] = ns
    for ln, pi, status, exact in col:
        if status == "ok" and len(ln["obs"][pi]["items"]) > 12:
            ctx.sample({"route": ln["route"], "packet": ln["pkts"][pi], "containers": list(ln["defn"]["containers"]),
                        "items": [(i["name"], i["cls"]) for i in ln["obs"][pi]["items"]]}, limit=2)
            break


def replay(ctx, obj):
    if "pkt" in obj:
        dc.replay_case(ctx, obj, "C01")
    else:
        g = {"defn": obj["defn"], "pkts": obj["pkts"], "route": tuple(obj.get("route", ["obj"])), "label": "replay"}
        print(dc.run_groups(ctx, "C01", [g], "replay", jobs=1, gen_level=True))
