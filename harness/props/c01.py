"""C01 - end-to-end decoding conforms to the XTCE document for every stream."""
import io
import warnings

from harness import gendefs, xdoc
from harness.props import decode_common as dc
from harness.props.c05 import ROUTES

META = {"title": "End-to-end decoding conforms to the XTCE document for every stream"}


def stream_level(ctx, dobj, d, pkts, obs_list, route):
    """The whole stream through packet_generator in one go must give, in order, exactly the per-packet results
    (which TLC has validated against the specification): recognised packets as parsed packets, the rest skipped."""
    from space_packet_parser.exceptions import UnrecognizedPacketTypeError
    data = b"".join(bytes(p) for p in pkts)
    want = []
    stop_at = None
    for i, o in enumerate(obs_list):
        if o["outcome"] == "exc":
            stop_at = i            # a field error ends the generator: nothing is claimed after it
            break
        want.append((i, o))
    got = []
    with warnings.catch_warnings():
        warnings.simplefilter("ignore")
        try:
            for it in dobj.packet_generator(io.BytesIO(data), yield_unrecognized_packet_errors=True, root_container_name=d["root"]):
                got.append(it)
                if len(got) > len(pkts) + 2:
                    break
        except Exception as e:  # noqa: BLE001
            if stop_at is None:
                return f"stream raised {type(e).__name__}: {e} although every packet parses or is unrecognised on its own"
    if len(got) < len(want) or (stop_at is None and len(got) != len(want)):
        return f"stream yielded {len(got)} items, per-packet results give {len(want)}"
    for (i, o), it in zip(want, got):
        if isinstance(it, UnrecognizedPacketTypeError):
            if o["outcome"] != "unrec":
                return f"item {i}: unrecognized error object where the packet parses on its own"
            items = [xdoc.typed_item(d, k, v) for k, v in (it.partial_data or {}).items()]
        else:
            if o["outcome"] != "ok":
                return f"item {i}: parsed packet where the packet is unrecognised on its own"
            if bytes(it.raw_data) != bytes(pkts[i]):
                return f"item {i}: not stream packet {i}"
            items = [xdoc.typed_item(d, k, v) for k, v in it.items()]
        if items != o["items"]:
            return f"item {i}: values differ from parsing the packet on its own"
    ctx.tally("streams_rerun_on_reused_definition")
    return reuse_level(dobj, d, data, len(pkts))


def reuse_level(dobj, d, data, npk):
    """A loaded definition serves any number of generators, also ones started with another root container and advanced in between:
    what each yields is a function of (document, root, stream) only.  The reference is the stream's result with the root named
    explicitly (just compared with the specification's per-packet results); generators that rely on the definition's own root must give
    the same, before, while and after a generator with a different root runs on the same definition object."""
    from space_packet_parser.exceptions import UnrecognizedPacketTypeError

    def norm(it):
        if isinstance(it, UnrecognizedPacketTypeError):
            return ("unrec", [(k, repr(v), repr(getattr(v, "raw_value", None))) for k, v in (it.partial_data or {}).items()])
        return ("ok", bytes(it.raw_data), [(k, repr(v), repr(getattr(v, "raw_value", None))) for k, v in it.items()])

    def drain(gen, limit):
        out = []
        try:
            for it in gen:
                out.append(norm(it))
                if len(out) > limit:
                    break
        except Exception as e:  # noqa: BLE001
            out.append(("raised", type(e).__name__))
        return out
    others = [c for c in d["corder"] if c != d["root"]]
    if not others:
        return None
    other = others[len(data) % len(others)]
    lim = npk + 2
    with warnings.catch_warnings():
        warnings.simplefilter("ignore")
        want = drain(dobj.packet_generator(io.BytesIO(data), yield_unrecognized_packet_errors=True, root_container_name=d["root"]), lim)
        g_def = dobj.packet_generator(io.BytesIO(data), yield_unrecognized_packet_errors=True)
        first = []
        if len(want) > 1:
            first = drain(iter([next(g_def)]), lim)
        drain(dobj.packet_generator(io.BytesIO(data), yield_unrecognized_packet_errors=True, root_container_name=other), lim)
        rest = drain(g_def, lim)
        if first + rest != want:
            return f"reuse: a generator on the definition's own root changed what it yields when another generator rooted at {other} ran in between"
        again = drain(dobj.packet_generator(io.BytesIO(data), yield_unrecognized_packet_errors=True), lim)
        if again != want:
            return f"reuse: after a generator rooted at {other}, a new generator on the definition's own root no longer gives the same result"
    return None


MISSIONS = [
    ("jpss/jpss1_geolocation_xtce_v1.xml", "jpss/J01_G011_LZ_2021-04-09T00-00-00Z_V01.DAT1", "CCSDSPacket", 0),
    ("jpss/contrived_inheritance_structure.xml", "jpss/J01_G011_LZ_2021-04-09T00-00-00Z_V01.DAT1", "CCSDSPacket", 0),
    ("test_xtce.xml", "jpss/J01_G011_LZ_2021-04-09T00-00-00Z_V01.DAT1", "CCSDSPacket", 0),
    ("suda/suda_combined_science_definition.xml", "suda/sciData_2022_130_17_41_53.spl", "CCSDSPacket", 4),
    ("idex/idex_combined_science_definition.xml", "idex/sciData_2023_052_14_45_05", "CCSDSPacket", 4),
    ("ctim/ctim_xtce_v1.xml", "ctim/ccsds_2021_155_14_39_51", "CCSDSTelemetryPacket", 0),
]
TD = "/repo/tests/test_data/"


def frame(path, skip, per_apid, cap):
    """first `per_apid` packets of every APID (framed by the harness, not by the library)"""
    raw = open(path, "rb").read()
    out, seen, off = [], {}, 0
    while off + skip + 6 <= len(raw) and len(out) < cap:
        st = off + skip
        n = 7 + raw[st + 4] * 256 + raw[st + 5]
        if st + n > len(raw):
            break
        apid = ((raw[st] & 7) << 8) | raw[st + 1]
        if seen.get(apid, 0) < per_apid:
            seen[apid] = seen.get(apid, 0) + 1
            out.append(list(raw[st:st + n]))
        off = st + n
    return out


def mission_groups(q):
    from harness import xread
    groups = []
    for xml, data, root, skip in MISSIONS:
        if q and "ctim" in xml:
            continue         # 9 500 parameters, ~250 fields per packet: minutes of TLC time; thorough tier only
        d = xread.read(TD + xml, root)
        head = open(TD + xml, "rb").read(3000).decode("utf-8", "ignore")
        prefix = "xtce" if 'xmlns:xtce="' in head else ""
        big = "suda" in xml or "idex" in xml or "ctim" in xml
        pk = frame(TD + data, skip, (3 if big else 40) if q else (25 if big else 400), 60 if q and big else (120 if q else 3000))
        groups.append({"defn": d, "pkts": pk, "route": ("file", TD + xml, prefix, root), "label": "mission:" + xml})
    return groups


def pipeline_section(ctx, q):
    """Pipeline.tla (Framer o Decode o classification) model-checked and replayed through the real packet_generator."""
    import os
    from harness import core, framer_io
    from harness.props import c11
    from harness.props.framer_common import _stream_bytes
    from harness.tlaval import edge_cover, load_dot
    from space_packet_parser.exceptions import UnrecognizedPacketTypeError
    dobj = xdoc.load(c11.definition())
    for parse_bad, yield_unrec in ((True, False), (False, True)):
        consts = ("  TrimAt = 5\n  DefaultSock = 4\n  AsIs = FALSE\n  Eager = FALSE\n  ParseBad = %s\n  YieldUnrec = %s\n  MaxPackets = %d\n"
                  "  Skips = {0, 2}\n  RSizes = {0, 2, 7}\n  WithCuts = TRUE\n" % (str(parse_bad).upper(), str(yield_unrec).upper(), 2 if q else 3))
        cfg = os.path.join(ctx.work, f"pipe-{parse_bad}.cfg")
        with open(cfg, "w") as f:
            f.write("SPECIFICATION MCSpec\nCONSTANTS\n" + consts + "INVARIANT ResultsFollowOut\nINVARIANT EndToEnd\nINVARIANT DoneExact\nINVARIANT NoCrash\n"
                    "PROPERTY Terminates\nCHECK_DEADLOCK FALSE\n")
        ctx.tlc_expect_ok("MC_Pipeline", cfg, tag=f"pipeline-parse_bad={parse_bad}")
        gcfg = os.path.join(ctx.work, f"pipe-gen-{parse_bad}.cfg")
        with open(gcfg, "w") as f:
            f.write("SPECIFICATION MCInitNext\nCONSTANTS\n" + consts.replace("MaxPackets = 3", "MaxPackets = 2").replace("RSizes = {0, 2, 7}", "RSizes = {0, 2}")
                    + "INVARIANT ResultsFollowOut\nCHECK_DEADLOCK FALSE\n")
        dump = os.path.join(ctx.work, f"pipe-graph-{parse_bad}")
        ctx.tlc_expect_ok("MC_Pipeline", gcfg, dump=dump, count=False, tag="pipeline-dump", workers=8)
        g = load_dot(dump + ".dot")
        paths, ncov = edge_cover(g, rng=ctx.rng, max_paths=600 if q else None)
        os.unlink(dump + ".dot")
        ctx.extra.setdefault("pipeline_graphs", []).append({"nodes": len(g.state_text), "edges": g.nedges, "paths": len(paths)})
        for path in paths:
            s0 = g.state(path[0])
            data = _stream_bytes(s0)
            chunks, prev = [], s0
            for a, n in path[1:]:
                st = g.state(n)
                if st["srcpos"] > prev["srcpos"]:
                    chunks.append(st["srcpos"] - prev["srcpos"])
                prev = st
            if prev["pc"] != "done":
                continue
            outs = prev["out"]
            want = prev["results"]
            script = framer_io.Script(chunks)
            with warnings.catch_warnings(record=True) as w:
                warnings.simplefilter("always")
                ev, items, outcome = framer_io.run_framer(data, s0["kind"], s0["rsize"], s0["skip"], chooser=script, max_items=len(want) + 2, via=dobj,
                                                          gen_kwargs={"parse_bad_pkts": parse_bad, "yield_unrecognized_packet_errors": yield_unrec,
                                                                      "root_container_name": "ROOT"})
            nw = core.flag_warnings(w)
            prob = None
            if outcome != "stop":
                prob = f"generator {outcome}; model terminates with {len(want)} items"
            elif len(items) != len(want):
                prob = f"{len(items)} items yielded; model {[(r['pkt'], r['kind']) for r in want]}"
            else:
                for it, r in zip(items, want):
                    o = outs[r["pkt"] - 1]
                    raw = bytes(it.partial_data.raw_data) if isinstance(it, UnrecognizedPacketTypeError) else bytes(it.raw_data)
                    if isinstance(it, UnrecognizedPacketTypeError) != (r["kind"] == "unrec_yield"):
                        prob = f"item for packet {r['pkt']} is {type(it).__name__}; model kind {r['kind']}"
                    elif raw != data[o["start"]:o["start"] + o["n"]]:
                        prob = f"item for packet {r['pkt']} does not carry that packet's bytes"
                # one warning per packet the model classifies as flagged (yielded with warning or withheld)
                flagged = sum(1 for o in outs if data[o["start"] + 1] == 1 and o["n"] - 6 != 2)
                if not prob and nw != flagged:
                    prob = f"{nw} length-mismatch warnings; model flags {flagged} packets"
            ctx.traces += 1
            ctx.count(("pipeline", data, s0["kind"], s0["rsize"], s0["skip"], tuple(chunks), parse_bad))
            if prob:
                ctx.violation("C01/pipeline/" + s0["kind"], prob, {"data": list(data), "kind": s0["kind"], "rsize": s0["rsize"], "skip": s0["skip"],
                                                                  "chunks": chunks, "parse_bad": parse_bad, "yield_unrec": yield_unrec})


def run(ctx):
    q = ctx.quick
    rng = ctx.rng
    ctx.rule = ("Random definitions in the supported subset (CCSDS header root; 1-4 APID branches with 1-2 further inheritance levels and "
                "overlapping criteria; a shared nested container; fields: unsigned/signed ints 1..72 bits in both byte orders, IEEE 16/32/64 "
                "and 1750A floats, enumerations, booleans, calibrated ints with context calibrators, time types, binary and string fields "
                "with fixed / referenced / looked-up lengths and all delimiters and codecs) x packets built by a steering encoder towards a "
                "chosen leaf and then mutated (truncated / extended / bit flips). Every packet is decoded by the real library (definition "
                "built by constructors or loaded from XML in 3 spellings), and the Decode.tla walk is run on it by TLC: items, order, exact "
                "values, raw values, classes, views, outcome, cursor, and the generator-level classification. The whole stream is also run "
                "through packet_generator and compared with the per-packet results. distinct = (definition, route, packet).")
    ctx.assumptions = ["values referenced by criteria / lengths / calibrators lie in the exact small domain (<= 20 bits, dyadic); otherwise the "
                       "case is 'undefined' and accepted", "character codecs are trusted (text compared as re-encoded bytes)",
                       "the steering encoder is untrusted: it only chooses inputs"]
    ndefs = 120 if q else 1500
    npk = 24 if q else 40
    groups = []
    for i in range(ndefs):
        g = gendefs.DefGen(rng).build()
        pk = [g.packet() for _ in range(npk)]
        groups.append({"defn": g.d, "pkts": pk, "route": ROUTES[i % len(ROUTES)], "label": f"random-{i}"})
    col = []
    st = dc.run_groups(ctx, "C01", groups, "e2e", gen_level=True, collect=col)
    # ---- the bundled and mission documents through the independent XTCE reader (harness/xread.py), recorded packets
    mg = mission_groups(q)
    mst = dc.run_groups(ctx, "C01", mg, "mission", gen_level=True, jobs=len(mg), lines_per_file=1)
    ctx.extra["mission_status_counts"] = mst
    ctx.extra["mission_packets"] = {g["label"]: len(g["pkts"]) for g in mg}
    ctx.extra["model_status_counts"] = st
    ctx.extra["definitions"] = ndefs
    if st.get("ok", 0) < ndefs:
        ctx.vacuity(f"too few packets decoded to the end: {st}")
    # field-kind coverage of packets that decoded to the end
    kinds = {}
    for ln, pi, status, exact in col:
        if status == "ok":
            for it in ln["obs"][pi]["items"]:
                kinds[it["cls"]] = kinds.get(it["cls"], 0) + 1
    ctx.extra["decoded_items_by_class"] = kinds
    # stream level
    ns = 0
    for gi, g in enumerate(groups):
        try:
            dobj = xdoc.make(g["defn"], g["route"])
        except Exception:  # noqa: BLE001
            continue
        obs = [None] * len(g["pkts"])
        for ln, pi, status, exact in col:
            if ln["label"] == g["label"]:
                obs[pi] = ln["obs"][pi]
        if any(o is None for o in obs):
            continue
        prob = stream_level(ctx, dobj, g["defn"], g["pkts"], obs, g["route"])
        ns += 1
        ctx.traces += 1
        if prob:
            ctx.violation("C01/stream/" + prob.split(":")[0][:30].replace(" ", "-"), prob, {"defn": g["defn"], "pkts": g["pkts"], "route": list(g["route"])})
    ctx.extra["streams_compared"] = ns
    if ns < ndefs // 2 and not ctx.violations:
        ctx.vacuity(f"only {ns} of {ndefs} streams could be compared at stream level")
    pipeline_section(ctx, q)
    for ln, pi, status, exact in col:
        if status == "ok" and len(ln["obs"][pi]["items"]) > 12:
            ctx.sample({"route": ln["route"], "packet": ln["pkts"][pi], "containers": list(ln["defn"]["containers"]),
                        "items": [(i["name"], i["cls"]) for i in ln["obs"][pi]["items"]]}, limit=2)
            break


def replay(ctx, obj):
    if "pkt" in obj:
        dc.replay_case(ctx, obj, "C01")
    else:
        g = {"defn": obj["defn"], "pkts": obj["pkts"], "route": tuple(obj.get("route", ["obj"])), "label": "replay"}
        print(dc.run_groups(ctx, "C01", [g], "replay", jobs=1, gen_level=True))
