"""C08 - calibration, enumeration and boolean derivation follow XTCE; raw value kept."""
import itertools
import json

from harness import calib, crit, tables
from harness.calib import rat

META = {"title": "Calibration, enumeration and boolean derivation follow XTCE; raw value kept"}
NOCAL = {"default": {"k": "none"}, "context": []}
INT8 = {"k": "int", "w": 8, "enc": "unsigned"}
SINT8 = {"k": "int", "w": 8, "enc": "signed"}
F32 = {"k": "flt", "w": 32, "fmt": "ieee"}
XS = [0, 1, 2, 4, 8, 16]                 # contiguous runs have power-of-two spacing: slopes stay dyadic
YS = [rat(-3, 2), rat(0), rat(5), rat(10), rat(1, 4), rat(7, 2)]


def spline(i0, n, order, extrap, yrot=0):
    pts = [{"x": rat(XS[i0 + j]), "y": YS[(i0 + j + yrot) % len(YS)]} for j in range(n)]
    return {"k": "spline", "order": order, "extrap": extrap, "pts": pts}


def poly(terms):
    return {"k": "poly", "terms": [{"c": c, "e": e} for c, e in terms]}


def case(pt, rawv, env=()):
    return {"pt": pt, "env": list(env), "raw": rawv}


def ptype(kind, enc, cal, enum=()):
    return {"kind": kind, "enc": enc, "cal": cal, "enum": list(enum)}


def enum_splines():
    for n in (2, 3, 4):
        for i0 in range(0, len(XS) - n + 1):
            for order in (0, 1):
                for extrap in (True, False):
                    for yrot in (0, 2):
                        cal = spline(i0, n, order, extrap, yrot)
                        xs = [XS[i0 + j] for j in range(n)]
                        qs = set(xs) | {xs[0] - 1, xs[-1] + 1, xs[-1] + 3} | {(a + b) // 2 for a, b in zip(xs, xs[1:])}
                        for qv in sorted(qs):
                            if qv >= 0:
                                yield case(ptype("int", INT8, {"default": cal, "context": []}), crit.tv_int(qv))
                            yield case(ptype("int", SINT8, {"default": cal, "context": []}), crit.tv_int(qv))
                        # dyadic midpoints and end points through a float-encoded raw value
                        for a, b in zip(xs, xs[1:]):
                            yield case(ptype("float", F32, {"default": cal, "context": []}), crit.tv_flt(a + b, 2))
                        for qv in (xs[0], xs[-1]):
                            yield case(ptype("float", F32, {"default": cal, "context": []}), crit.tv_flt(qv, 1))
                            yield case(ptype("float", F32, {"default": cal, "context": []}), crit.tv_flt(4 * qv + 1, 4))
                            yield case(ptype("float", F32, {"default": cal, "context": []}), crit.tv_flt(4 * qv - 1, 4))


def enum_flat_splines():
    """splines with equal calibrated values at consecutive points (plateaus, a flat tail, a flat head): every point still bounds the
    closed range and every segment still exists"""
    shapes = ([1, 2, 2, 2], [2, 2, 2, 1], [1, 1, 5, 5], [3, 3, 3, 3], [0, 4, 4, 0])
    for ys in shapes:
        for order in (0, 1):
            for extrap in (True, False):
                pts = [{"x": rat(XS[j + 1]), "y": rat(y)} for j, y in enumerate(ys)]      # x = 1, 2, 4, 8
                cal = {"k": "spline", "order": order, "extrap": extrap, "pts": pts}
                for qv in (0, 1, 2, 3, 4, 5, 6, 7, 8, 9):
                    yield case(ptype("int", INT8, {"default": cal, "context": []}), crit.tv_int(qv))


def enum_polys():
    coeffs = [rat(-3, 2), rat(1, 4), rat(2), rat(1, 2)]
    termsets = []
    for k in (1, 2, 3):
        for exps in itertools.combinations(range(4), k):
            for cs in itertools.product(coeffs[:3], repeat=k):
                termsets.append(list(zip(cs, exps)))
    for ts in termsets:
        cal = poly(ts)
        for qv in (0, 1, 2, 5, 6):
            yield case(ptype("int", INT8, {"default": cal, "context": []}), crit.tv_int(qv))
        for qv in (-1, -4):
            yield case(ptype("int", SINT8, {"default": cal, "context": []}), crit.tv_int(qv))
        yield case(ptype("float", F32, {"default": cal, "context": []}), crit.tv_flt(3, 2))
        yield case(ptype("float", F32, {"default": cal, "context": []}), crit.tv_flt(-5, 4))


def cmp(ref, op, n, cal=True):
    return {"k": "cmp", "ref": ref, "op": op, "cal": cal, "lit": crit.lit_num(n < 0, abs(n))}


def enum_contexts():
    cals = [poly([(rat(1, 2), 0), (rat(2), 1)]), poly([(rat(100), 0)]), spline(0, 3, 1, True), spline(1, 2, 0, False)]
    crits = [[cmp("MODE", "==", 1)], [cmp("MODE", ">=", 1)], [cmp("SELF", "<", 4, False)], [cmp("MODE", "==", 0), cmp("SELF", ">=", 2, False)],
             [{"k": "or", "conds": [crit_cond("MODE", "==", 2), crit_cond("AUX", ">", 0)], "groups": []}],
             [cmp("AUX", "==", 0)]]
    defaults = [{"k": "none"}, poly([(rat(-1), 0), (rat(1), 1)])]
    for nctx in (1, 2, 3):
        for cidx in itertools.permutations(range(len(crits)), nctx):
            ctx = [{"crit": crits[ci], "cal": cals[(ci + j) % len(cals)]} for j, ci in enumerate(cidx)]
            for d in defaults:
                for mode, aux, rawv in itertools.product((0, 1, 2), (0, 3), (1, 2, 4, 9)):
                    env = [{"name": "MODE", "v": crit.tv_int(mode), "r": crit.tv_int(mode)},
                           {"name": "AUX", "v": crit.tv_flt(2 * aux + 1, 2) if aux else crit.tv_flt(0), "r": crit.tv_int(aux)}]
                    if (mode + aux + rawv + nctx) % 3 and nctx == 3:
                        continue
                    yield case(ptype("int", INT8, {"default": d, "context": ctx}), crit.tv_int(rawv), env)


def crit_cond(name, op, n):
    return {"k": "cond", "l": name, "lcal": True, "op": op, "rk": "lit", "r": "", "rcal": False, "lit": crit.lit_num(False, n)}


def enum_repeated_terms():
    """a polynomial is the sum of ALL its terms, also when an exponent occurs twice"""
    for terms in ([(rat(1, 2), 1), (rat(1, 4), 1)], [(rat(3), 0), (rat(1, 2), 1), (rat(-1), 0), (rat(1, 4), 1)], [(rat(1), 2), (rat(2), 0), (rat(1), 2)],
                  [(rat(1, 2), 1), (rat(-1, 2), 1)]):
        for rawn in (0, 1, 4, 7):
            yield case(ptype("int", INT8, {"default": poly(terms), "context": []}), crit.tv_int(rawn))
            yield case(ptype("float", F32, {"default": poly(terms), "context": []}), crit.tv_flt(rawn, 2))


def enum_enums_bools_times():
    en = [{"raw": crit.tv_int(0), "label": "OFF"}, {"raw": crit.tv_int(1), "label": "ON"}, {"raw": crit.tv_int(5), "label": "FIVE"},
          {"raw": crit.tv_int(6), "label": ""}]        # an empty label is a label: the value is listed
    calsets = [NOCAL, {"default": poly([(rat(10), 0), (rat(3), 1)]), "context": []},
               {"default": {"k": "none"}, "context": [{"crit": [cmp("SELF", ">=", 0, False)], "cal": poly([(rat(7), 0)])}]}]
    for cs in calsets:
        for rawv in (0, 1, 2, 5, 6):
            yield case(ptype("enum", INT8, cs, en), crit.tv_int(rawv))
            yield case(ptype("bool", INT8, cs), crit.tv_int(rawv))
        yield case(ptype("bool", SINT8, cs), crit.tv_int(-1))
    fen = [{"raw": crit.tv_flt(3, 2), "label": "ONE_AND_HALF"}, {"raw": crit.tv_flt(0), "label": "ZERO"}]
    for rv in (crit.tv_flt(3, 2), crit.tv_flt(0), crit.tv_flt(1)):
        yield case(ptype("enum", F32, NOCAL, fen), rv)
        yield case(ptype("bool", F32, NOCAL), rv)
    # time types: the Encoding element's scale / offset are the default polynomial offset + scale*raw
    for kind in ("abstime", "reltime"):
        for terms in ([(rat(5, 2), 0), (rat(1, 4), 1)], [(rat(2), 1)], [(rat(10), 0), (rat(1), 1)], []):
            d = poly(terms) if terms else {"k": "none"}
            pt = ptype(kind, INT8, {"default": d, "context": []})
            pt["unit"] = "s"
            pt["epoch"] = "TAI"
            if terms and len(terms) == 2 and terms[1][0] == rat(1):
                pt["scale_implicit"] = True
            for rawv in (0, 1, 8, 255):
                yield case(pt, crit.tv_int(rawv))
            ptf = ptype(kind, F32, {"default": d, "context": []})
            ptf["unit"] = "s"
            yield case(ptf, crit.tv_flt(3, 2))


def rand_case(rng):
    def rcal():
        if rng.random() < 0.5:
            nt = rng.randint(1, 4)
            exps = rng.sample(range(4), nt)
            return poly([(rat(rng.randint(-12, 12), rng.choice([1, 1, 2, 4, 8])), e) for e in exps])
        n = rng.randint(2, 5)
        i0 = rng.randint(0, len(XS) - n)
        pts = [{"x": rat(XS[i0 + j]), "y": rat(rng.randint(-40, 40), rng.choice([1, 2, 4]))} for j in range(n)]
        return {"k": "spline", "order": rng.randint(0, 1), "extrap": rng.random() < 0.5, "pts": pts}
    env = [{"name": "MODE", "v": crit.tv_int(rng.randint(0, 3)), "r": crit.tv_int(rng.randint(0, 3))},
           {"name": "AUX", "v": crit.tv_flt(rng.randint(-8, 8), rng.choice([1, 2, 4])), "r": crit.tv_int(rng.randint(0, 9))}]

    def rcrit():
        k = rng.random()
        if k < 0.6:
            ref = rng.choice(["MODE", "AUX", "SELF"])
            return [cmp(ref, rng.choice(["==", "!=", "<", ">", "<=", ">="]), rng.randint(0, 4), ref != "SELF" and rng.random() < 0.5)]
        if k < 0.8:
            return [cmp("MODE", ">=", rng.randint(0, 2)), cmp("SELF", "<", rng.randint(1, 20), False)]
        return [{"k": rng.choice(["and", "or"]), "conds": [crit_cond("MODE", "==", rng.randint(0, 3)), crit_cond("AUX", "<", rng.randint(0, 3))],
                 "groups": []}]
    ctx = [{"crit": rcrit(), "cal": rcal()} for _ in range(rng.choice([0, 0, 1, 2, 3]))]
    d = rcal() if rng.random() < 0.6 else {"k": "none"}
    kind = rng.choice(["int", "int", "float", "enum", "bool", "abstime"])
    if kind == "float":
        enc, rawv = F32, crit.tv_flt(rng.randint(-40, 40), rng.choice([1, 2, 4]))
    elif rng.random() < 0.3:
        enc, rawv = SINT8, crit.tv_int(rng.randint(-20, 20))
    else:
        enc, rawv = INT8, crit.tv_int(rng.choice([0, 1, 2, 4, 8, 16, rng.randint(0, 20)]))
    en = [{"raw": crit.tv_int(i), "label": f"L{i}"} for i in rng.sample(range(-3, 12), 5)]
    if kind == "abstime":
        ctx = []
        d = poly([(rat(rng.randint(-9, 9), 2), 0), (rat(rng.randint(1, 9), 4), 1)])
    pt = ptype(kind, enc, {"default": d, "context": ctx}, en if kind == "enum" and enc is not F32 else ())
    if kind == "enum" and enc is F32:
        pt["kind"] = "float"
    if kind == "abstime":
        pt["unit"] = "s"
    return case(pt, rawv, env)


def run(ctx):
    q = ctx.quick
    ctx.rule = ("Calib.tla evaluated by TLC on (A) the exhaustive small space: splines over every contiguous run of 2-4 knots "
                "(power-of-two spacing) x order {0,1} x extrapolate x queries at every knot, both end points, midpoints and outside "
                "(int and float raw); polynomials with <= 3 dyadic terms, exponents 0-3; context lists of <= 3 calibrators with "
                "overlapping criteria (precedence, fall-through to default / raw, self-reference, boolean expressions); enum / bool "
                "over calibrated encodings; time types; and (B) random calibrator sets. Each case is decoded by the real "
                "ParameterType.parse_value built through constructors and through XML (explicit / omitted defaults) and compared "
                "by Trace_Calib (value, class, raw_value, error kind). One type object per (type, route) decodes all its cases, in "
                "shuffled order (history independence). distinct = (type, environment, raw, route).")
    ctx.assumptions = ["first-order spline interpolation and polynomials are double arithmetic on the raw value: raw integers that are not "
                       "exactly representable as doubles are used with enumerations and zero-order splines only",
                       "coefficients, knots and raw values are dyadic with small magnitude so both IEEE double arithmetic and the "
                       "32-bit rational arithmetic of the specification are exact; general decimal coefficients are outside the oracle",
                       "a failing calibrator on an enumerated / boolean encoding is unspecified (any outcome accepted)"]
    cases = list(enum_splines()) + list(enum_polys()) + list(enum_contexts()) + list(enum_enums_bools_times()) + list(enum_repeated_terms()) + list(enum_flat_splines())
    ctx.extra["A_cases"] = len(cases)
    rng = ctx.rng
    rcases = [rand_case(rng) for _ in range(6000 if q else 60000)]
    lines = []
    shared, hist = {}, {}
    order = list(enumerate(cases + rcases))
    # the enumerations list a type's raw values in ascending order; a deterministic shuffle of the enumerated block makes one type
    # object see them in no particular order (what it decoded before must not matter)
    head = order[:len(cases)]
    rng.shuffle(head)
    order[:len(cases)] = head
    for i, c in order:
        routes = [("ctor", False), ("xml", False), ("xml", True)]
        if q or i >= len(cases):
            routes = [routes[i % 3]]
        for via, od in routes:
            obs = calib.observe(c["pt"], c["env"], c["raw"], via, od, shared=shared)
            h = hist.setdefault((json.dumps(c["pt"], sort_keys=True), via, od), [])
            lines.append(dict(c, obs=obs, via=via + ("-defaults-omitted" if od else ""), src="A" if i < len(cases) else "B", nprev=len(h)))
            h.append(len(lines) - 1)
    # ---- S: enumerations over a 64-bit encoding whose listed values and packet values sit at 2^53, 2^63 and just below 2^64 on the
    # real side (the specification keeps the small values): a listed value must be found exactly, an unlisted one must fail
    INT64 = {"k": "int", "w": 64, "enc": "unsigned"}
    en64 = [{"raw": crit.tv_int(0), "label": "L0"}, {"raw": crit.tv_int(1), "label": "L1"}, {"raw": crit.tv_int(2), "label": "L2"},
            {"raw": crit.tv_int(5), "label": "L5"}]
    ns = 0
    for bi, B in enumerate((2 ** 53, 2 ** 63, 2 ** 64 - 16, 2 ** 53 - 2)):
        for rawn in (0, 1, 2, 3, 4, 5, 6):
            for via, od in (("ctor", False), ("xml", False), ("xml", True)):
                c = case(ptype("enum", INT64, NOCAL, en64), crit.tv_int(rawn))
                rp, rr = calib.shifted_enum(c["pt"], c["raw"], B)
                obs = calib.observe(rp, [], rr, via, od, unshift=B)
                lines.append(dict(c, obs=obs, via=via + ("-defaults-omitted" if od else ""), src="S", nprev=0, shiftbase=bi))
                ns += 1
    # splines over a 64-bit encoding with knots at 2^53 + {0, 2, 4, 8, 16} (all exactly representable) and raw values 2^53 + 0..17 on
    # the real side: odd raw values are NOT representable as floats, so a query converted to float lands on a knot or in the wrong segment
    for order in (0, 1):
        for extrap in (False, True):
            for lo in (0, 1, 2):
                pts = [{"x": rat(XS[lo + j] * 2 if False else [0, 2, 4, 8, 16][lo + j]), "y": YS[(lo + j) % len(YS)]} for j in range(3)]
                sp = {"default": {"k": "spline", "order": order, "extrap": extrap, "pts": pts}, "context": []}
                for rawn in range(0, 18):
                    if order == 1 and rawn % 2:
                        continue        # first-order interpolation is double arithmetic on the query: a raw value that is not a double
                                        # is outside the exact oracle (zero order is pure comparison and exact for every integer)
                    via, od = (("ctor", False), ("xml", False), ("xml", True))[(rawn + lo) % 3]
                    c = case(ptype("int", INT64, sp), crit.tv_int(rawn))
                    rp, rr = calib.shifted_enum(c["pt"], c["raw"], 2 ** 53)
                    obs = calib.observe(rp, [], rr, via, od, unshift=2 ** 53)
                    lines.append(dict(c, obs=obs, via=via + ("-defaults-omitted" if od else ""), src="S", nprev=0, shiftbase=0))
                    ns += 1
    ctx.extra["S_wide_enumeration_and_spline_cases"] = ns
    for ln in lines:
        ctx.count((ln["src"], ln["via"], repr(ln["pt"]), repr(ln["env"]), repr(ln["raw"]), ln.get("shiftbase", -1)))
    rej = tables.validate_lines(ctx, "Trace_Calib", lines, "calib", jobs=16)
    for idx, clause in rej.items():
        ln = lines[idx]
        pt = ln["pt"]
        ck = pt["cal"]["default"]["k"] if not pt["cal"]["context"] else "context"
        sig = f"C08/{pt['kind']}/{ck}/{clause[0]}/{ln['obs']['k']}"
        payload = {k: ln[k] for k in ("pt", "env", "raw", "via")}
        if ln["src"] == "S":
            sig += "/wide-values"
            payload["shiftbase"] = ln["shiftbase"]
        if ln["nprev"]:
            via, od = ln["via"].split("-")[0], "omitted" in ln["via"]
            if calib.observe(pt, ln["env"], ln["raw"], via, od) != ln["obs"]:
                sig += "/depends-on-earlier-packets"
                h = hist[(json.dumps(pt, sort_keys=True), via, od)]
                payload["history"] = [{k: lines[j][k] for k in ("env", "raw")} for j in h[:h.index(idx)]][-40:]
        ctx.violation(sig, f"type {pt} raw {ln['raw']} env {ln['env']} via {ln['via']}"
                      f"{' (same type object, after ' + str(ln['nprev']) + ' earlier cases)' if ln['nprev'] else ''}: real {ln['obs']}, "
                      f"specification {clause[1][:300]}", payload)
    ctx.exhaustive = True
    ctx.extra["lines"] = len(lines)
    ctx.extra["obs_counts"] = {}
    for ln in lines:
        k = ln["obs"]["k"]
        ctx.extra["obs_counts"][k] = ctx.extra["obs_counts"].get(k, 0) + 1
    for want in ("spline", "context"):
        for ln in lines:
            pt = ln["pt"]
            if (want == "context" and len(pt["cal"]["context"]) > 1) or (want == "spline" and pt["cal"]["default"]["k"] == "spline" and ln["obs"]["k"] == "val"):
                ctx.sample({k: ln[k] for k in ("pt", "env", "raw", "obs", "via")}, limit=4)
                break


def replay(ctx, obj):
    via = obj.get("via", "ctor")
    shared = {}
    for h in obj.get("history", []):
        calib.observe(obj["pt"], h["env"], h["raw"], via.split("-")[0], "omitted" in via, shared=shared)
    if "shiftbase" in obj:
        B = (2 ** 53, 2 ** 63, 2 ** 64 - 16, 2 ** 53 - 2)[obj["shiftbase"]]
        rp, rr = calib.shifted_enum(obj["pt"], obj["raw"], B)
        obs = calib.observe(rp, [], rr, via.split("-")[0], "omitted" in via, unshift=B)
    else:
        obs = calib.observe(obj["pt"], obj["env"], obj["raw"], via.split("-")[0], "omitted" in via, shared=shared)
    ln = dict(obj, obs=obs)
    rej = tables.validate_lines(ctx, "Trace_Calib", [ln], "replay", jobs=1)
    print("observed:", obs, "rejected:", rej)
    for idx, clause in rej.items():
        ctx.violation(f"C08/replay/{clause[0]}", f"specification {clause}", obj)
