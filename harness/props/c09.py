"""C09 - writing a definition to XTCE XML and loading it back preserves its meaning."""
import glob
import io
import json
import warnings

from harness import core, crit, defs, gendefs, project, xdoc
from harness.calib import rat
from harness.props.c08 import poly
from harness.props.c15 import DATE

LEVEL = "exploration"
META = {"title": "Writing a definition to XTCE XML and loading it back preserves its meaning"}
WHOLE = {"k": "whole", "tc": [], "tag": 0, "unit": 1}
HDR = [("VERSION", 3), ("TYPE", 1), ("SHF", 1), ("APID", 11), ("SEQF", 2), ("SEQC", 14), ("PLEN", 16)]


def uint(w, enc="unsigned", order="msb"):
    return xdoc.ptype_num("int", xdoc.numeric_enc("int", w, enc, order))


def cmp(ref, op, n, cal=True):
    return {"k": "cmp", "ref": ref, "op": op, "cal": cal, "lit": crit.lit_num(False, n)}


def lattice_defn(points):
    """A definition exercising the given {attribute: value} points, every other attribute at its default."""
    g = lambda a, dflt: points.get(a, dflt)
    d = xdoc.new_defn("ROOT")
    desc_s, desc_l = g("shortDescription", ""), g("LongDescription", "")
    for nm, w in HDR:
        xdoc.add_param(d, nm, uint(w))
    xdoc.add_param(d, "N", uint(8), short=desc_s, long=desc_l)
    it = uint(16, g("IntegerDataEncoding.encoding", "unsigned"), g("NumericDataEncoding.byteOrder", "msb"))
    it["unit"] = g("Unit", "")
    dc = g("DefaultCalibrator", "none")
    spl = {"k": "spline", "order": int(g("SplineCalibrator.order", "0")), "extrap": g("SplineCalibrator.extrapolate", "false") == "true",
           "pts": [{"x": rat(0), "y": rat(1, 2)}, {"x": rat(4), "y": rat(9)}, {"x": rat(8), "y": rat(-3)}]}
    if "SplineCalibrator.order" in points or "SplineCalibrator.extrapolate" in points:
        dc = "spline"
    # numbers that need every digit of a double (2^-16, 123456789/1024, -(2^40+1)/2^20, 0.1 as stored): written and read back exactly
    from fractions import Fraction as _F
    tenth = _F(0.1)
    long_poly = poly([(rat(123456789, 1024), 0), (rat(1, 65536), 1), (rat(-(2 ** 40 + 1), 2 ** 20), 2)])
    long_poly["terms"].append({"c": {"num": tenth.numerator, "den": tenth.denominator}, "e": 3})
    long_spl = dict(spl, pts=[{"x": rat(0), "y": rat(1, 65536)}, {"x": rat(4), "y": {"num": tenth.numerator, "den": tenth.denominator}},
                              {"x": rat(123456789, 1024), "y": rat(-(2 ** 40 + 1), 2 ** 20)}])
    default = {"none": {"k": "none"}, "poly": poly([(rat(1, 2), 0), (rat(3), 1), (rat(-1, 4), 2)]), "spline": spl,
               "poly-many-digits": long_poly, "spline-many-digits": long_spl}[dc]
    cc = g("ContextCalibratorList", "none")
    ctxs = []
    cm = g("ContextMatch", "comparisons")
    if cm == "boolean-expression" and cc == "none":
        cc = "one"
    if cc in ("one", "two"):
        c1 = [cmp("N", "==", 1, g("Comparison.useCalibratedValue", "true") == "true")]
        if cm == "boolean-expression":
            c1 = [{"k": "or", "conds": [{"k": "cond", "l": "N", "lcal": True, "op": "==", "rk": "lit", "r": "", "rcal": False, "lit": crit.lit_num(False, 1)},
                                        {"k": "cond", "l": "SEQF", "lcal": False, "op": "==", "rk": "lit", "r": "", "rcal": False, "lit": crit.lit_num(False, 0)}],
                   "groups": []}]
        ctxs.append({"crit": c1, "cal": poly([(rat(5), 0)])})
    if cc == "two":
        ctxs.append({"crit": [cmp("N", ">=", 2), cmp("SEQF", "!=", 0)], "cal": spl})
    it["cal"] = {"default": default, "context": ctxs}
    xdoc.add_param(d, "I16", it)
    import copy
    xdoc.add_param(d, "I16B", copy.deepcopy(it))          # a second channel with an equal type (shared instances on the "shared" route)
    fenc = g("FloatDataEncoding.encoding", "IEEE754")
    xdoc.add_param(d, "FL", xdoc.ptype_num("float", xdoc.numeric_enc("flt", 32, order=g("NumericDataEncoding.byteOrder", "msb"),
                                                                      fmt="ieee" if fenc == "IEEE754" else "mil1750a"), unit=g("Unit", "")))
    adj = g("LinearAdjustment", "8x+0")
    slope, icpt = {"none": (None, 0), "8x+0": (8, 0), "8x-8": (8, -8), "0x+16": (0, 16), "1x+3": (1, 3), "1x+0": (1, 0)}[adj]
    rcal = g("ParameterInstanceRef.useCalibratedValue", "true") == "true"
    ls = {"k": "dyn", "ref": "N", "cal": rcal, "adj": slope is not None, "slope": slope or 0, "icpt": icpt}
    look1 = {"k": "lookup", "entries": [{"items": [cmp("N", "==", 1)], "val": 8}, {"items": [cmp("N", ">=", 2)], "val": 16},
                                         {"items": [cmp("N", "==", 0)], "val": 24}]}
    look2 = {"k": "lookup", "entries": [{"items": [cmp("N", ">=", 1), cmp("N", "<", 3)], "val": 8},
                                         {"items": [cmp("N", ">=", 3), cmp("SEQF", "!=", 9, False)], "val": 16},
                                         {"items": [cmp("N", "==", 0), cmp("APID", "==", 5)], "val": 24}]}
    bl = {"dynamic": ls, "fixed": {"k": "fixed", "n": 16}, "lookup": look1, "lookup-lists": look2}[g("BinaryLength", "dynamic")]
    xdoc.add_param(d, "BLOB", xdoc.ptype_sb({"k": "bin", "len": bl, "delim": WHOLE, "codec": ""}, unit=g("Unit", "")))
    codec = g("StringDataEncoding.encoding", "UTF-8")
    lead, term = g("LeadingSize", "none"), g("TerminationChar", "none")
    if term == "5800":
        codec = "UTF-16LE"
    elif term == "00" and codec == "UTF-16LE":
        term = "0000"           # the termination character must be one character of the declared encoding
    delim = WHOLE
    if lead != "none":
        delim = {"k": "lead", "tc": [], "tag": int(lead), "unit": 1}
    elif term != "none":
        delim = {"k": "term", "tc": list(bytes.fromhex(term)), "tag": 0, "unit": 2 if len(term) == 4 else 1}
    xdoc.add_param(d, "TXT", xdoc.ptype_sb({"k": "str", "len": {"k": "fixed", "n": 48}, "delim": delim, "codec": codec}, unit=g("Unit", "")))
    sl = {"dynamic": dict(ls), "lookup": look1, "lookup-lists": look2}[g("StringLength", "dynamic")]
    xdoc.add_param(d, "TXT2", xdoc.ptype_sb({"k": "str", "len": sl, "delim": WHOLE, "codec": "US-ASCII"}))
    tcal = g("TimeEncoding.scale/offset", "none")
    tdef = {"none": {"k": "none"}, "offset+scale": poly([(rat(5, 2), 0), (rat(1, 4), 1)]), "scale": poly([(rat(2), 1)]),
            # polynomials the Encoding element's scale / offset attributes cannot express
            "quadratic": poly([(rat(1, 2), 2)]), "offset+scale+quadratic": poly([(rat(5, 2), 0), (rat(1, 4), 1), (rat(1, 2), 2)]),
            "offset+quadratic": poly([(rat(5, 2), 0), (rat(1, 2), 2)]), "constant": poly([(rat(5, 2), 0)])}[tcal]
    tt = xdoc.ptype_num("abstime", xdoc.numeric_enc("int", 8), {"default": tdef, "context": []}, unit=g("Unit", ""))
    tt["epoch"] = g("ReferenceTime.Epoch", "")
    if g("ReferenceTime.OffsetFrom", ""):
        tt["offsetFrom"] = g("ReferenceTime.OffsetFrom", "")
    xdoc.add_param(d, "TM", tt)
    en = xdoc.ptype_num("enum", xdoc.numeric_enc("int", 2), enum=[{"raw": crit.tv_int(v), "label": f"L{v}"} for v in (0, 1, 3)], unit=g("Unit", ""))
    xdoc.add_param(d, "EN", en)
    xdoc.add_container(d, "ROOT", [("p", nm) for nm, _ in HDR], abstract=True, short=desc_s, long=desc_l)
    op = g("Comparison.comparisonOperator", "==")
    xdoc.add_container(d, "MAIN", [("p", "N"), ("p", "I16"), ("p", "I16B"), ("p", "FL"), ("p", "BLOB"), ("p", "TXT"), ("p", "TM"), ("p", "EN")], base="ROOT",
                       crit_list=[cmp("APID", op, 5, g("Comparison.useCalibratedValue", "true") == "true")],
                       abstract=g("SequenceContainer.abstract", "false") == "true")
    xdoc.add_container(d, "SUB", [("p", "TXT2")], base="MAIN", crit_list=[cmp("EN", "==", 1, False), cmp("N", "<", 9)])
    # a child selected by a boolean expression whose conditions compare two parameters with independent selectors
    lc = g("Condition.left.useCalibratedValue", "true") == "true"
    rc = g("Condition.right.useCalibratedValue", "true") == "true"
    cop = g("Condition.operator", "==")
    pp = {"k": "cond", "l": "I16", "lcal": lc, "op": cop, "rk": "param", "r": "TM", "rcal": rc, "lit": crit.lit_num(False, 0)}
    pl = {"k": "cond", "l": "N", "lcal": True, "op": "<", "rk": "lit", "r": "", "rcal": False, "lit": crit.lit_num(False, 200)}
    pq = {"k": "cond", "l": "EN", "lcal": False, "op": "!=", "rk": "lit", "r": "", "rcal": False, "lit": crit.lit_num(False, 1)}
    shape = g("BooleanExpression.shape", "condition")
    bx = {"condition": pp, "and": {"k": "and", "conds": [pp, pl], "groups": []}, "or": {"k": "or", "conds": [pp, pq], "groups": []},
          "and-of-or": {"k": "and", "conds": [pl], "groups": [{"k": "or", "conds": [pp, pq], "groups": []}]},
          "or-of-and": {"k": "or", "conds": [pq], "groups": [{"k": "and", "conds": [pp, pl], "groups": []}]},
          # two sibling groups of the other kind
          "and-of-two-ors": {"k": "and", "conds": [], "groups": [{"k": "or", "conds": [pp, pq], "groups": []}, {"k": "or", "conds": [pl, pq], "groups": []}]},
          "or-of-two-ands": {"k": "or", "conds": [], "groups": [{"k": "and", "conds": [pp, pl], "groups": []}, {"k": "and", "conds": [pq, pl], "groups": []},
                                                                 {"k": "and", "conds": [pp, pq], "groups": []}]}}[shape]
    bxv = uint(8)
    bxv["unit"] = g("Unit", "")
    xdoc.add_param(d, "BXV", xdoc.ptype_num("bool", xdoc.numeric_enc("int", 8), unit=g("Unit", "")) if g("Unit", "") else bxv)
    # fields that are not a whole number of bytes keep their declared byte order too
    xdoc.add_param(d, "ODD12", uint(12, g("IntegerDataEncoding.encoding", "unsigned"), g("NumericDataEncoding.byteOrder", "msb")))
    xdoc.add_param(d, "ODD4", uint(4, "unsigned", g("NumericDataEncoding.byteOrder", "msb")))
    xdoc.add_container(d, "BX", [("p", "BXV"), ("p", "ODD12"), ("p", "ODD4")], base="MAIN", crit_list=[bx])
    return d


_RT = [0]


def roundtrip(dobj):
    from lxml import etree
    from space_packet_parser.xtce.definitions import XtcePacketDefinition
    dobj.date = DATE
    _RT[0] += 1
    tree = dobj.to_xml_tree()
    if _RT[0] % 2:
        dobj.to_xml_tree()          # every second case: another tree is written before the first one is serialised
    else:
        from harness.props.c15 import other_definition
        other_definition().to_xml_tree()     # ... or a tree of a very different definition
    xml = etree.tostring(tree)
    return XtcePacketDefinition.from_xtce(io.BytesIO(xml), xtce_ns_prefix=dobj.xtce_ns_prefix, root_container_name=dobj.root_container_name), xml


def compare(ctx, label, x0, d_abs, pkts, replay_obj, sigroot):
    """P(L(W(X))) = P(X) and identical decoding; returns number of problems"""
    p0 = project.project(x0)
    try:
        x1, xml = roundtrip(x0)
    except Exception as e:  # noqa: BLE001
        ctx.violation(f"{sigroot}/write-or-reload-failed", f"{label}: {type(e).__name__}: {e}"[:300], replay_obj)
        return 1
    p1 = project.project(x1)
    diffs = project.same_content(p1, p0) + project.same_content(p0, p1)
    n = 0
    if diffs:
        ctx.violation(f"{sigroot}/projection-differs/" + diffs[0].split(":")[0].split(".")[0], f"{label}: {diffs[0][:400]}", replay_obj)
        n += 1
    for pk in pkts:
        with warnings.catch_warnings():
            warnings.simplefilter("ignore")
            o0 = xdoc.observe_packet(x0, d_abs, pk) if d_abs else _obs_plain(x0, pk)
            o1 = xdoc.observe_packet(x1, d_abs, pk) if d_abs else _obs_plain(x1, pk)
        o0.pop("note", None)
        o1.pop("note", None)
        if o0 != o1:
            ctx.violation(f"{sigroot}/decodes-differently", f"{label}: packet {list(pk)[:24]} decodes to {str(o0)[:200]} before and {str(o1)[:200]} after",
                          dict(replay_obj, pkt=list(pk)))
            n += 1
            break
    return n


def _obs_plain(dobj, pk):
    from space_packet_parser import packets
    from space_packet_parser.exceptions import UnrecognizedPacketTypeError
    p = packets.CCSDSPacket(raw_data=bytes(pk))
    try:
        dobj.parse_ccsds_packet(p)
        return {"outcome": "ok", "items": [(k, repr(v), repr(v.raw_value), type(v).__name__) for k, v in p.items()], "pos": p.raw_data.pos}
    except UnrecognizedPacketTypeError as e:
        return {"outcome": "unrec", "items": [(k, repr(v)) for k, v in (e.partial_data or {}).items()], "pos": p.raw_data.pos}
    except Exception as e:  # noqa: BLE001
        return {"outcome": "exc:" + type(e).__name__, "items": [], "pos": p.raw_data.pos}


def run(ctx):
    q = ctx.quick
    rng = ctx.rng
    ctx.rule = ("RoundTripAttrs (TLC: Read(Write(v)) = v for every attribute and value of the attribute table) exported point by point; each "
                "point, and random pairs of points, becomes a real definition built from objects AND loaded from XML (explicit and omitted "
                "defaults); random rich definitions (gendefs) and the bundled / mission documents are added. For every definition X: "
                "project(load(write(X))) must equal project(X) (independent structural projection incl. length adjustments, calibrators, "
                "criteria, enumerations, units, descriptions, inheritance, abstract flags) and packets must decode identically before and "
                "after. distinct = definitions x route.")
    ctx.assumptions = ["BaseContainer without RestrictionCriteria and zero-length fixed binary are outside the writable subset (the writer "
                       "rejects / cannot express them)", "equality is judged by harness/project.py, not by the library's own __eq__"]
    r = ctx.tlc_expect_ok("Gen_RoundTripAttrs", "Gen_RoundTripAttrs.cfg", workers=1, tag="attribute-lattice")
    pts = []
    for line in r.printed:
        v = core.parse_printed(line)
        if v[0] == "ATTR":
            if v[3] is not True:
                raise core.MachineryError(f"attribute table violates Read(Write(v)) = v at {v[1]} = {v[2]}")
            pts.append((v[1], v[2]))
    if len(pts) < 40:
        raise core.MachineryError(f"attribute lattice export too small: {len(pts)}")
    ctx.extra["lattice_points"] = len(pts)
    cases = [{a: v} for a, v in pts]
    for _ in range(40 if q else 600):
        (a1, v1), (a2, v2) = rng.sample(pts, 2)
        if a1 != a2:
            cases.append({a1: v1, a2: v2})
    for _ in range(10 if q else 200):
        cases.append(dict(rng.sample(pts, 6)))
    nprob = 0
    for ci, pt in enumerate(cases):
        d = lattice_defn(pt)
        pk = []
        for _ in range(6):
            n = rng.choice([0, 1, 2, 3, 5])
            body = bytes([n]) + bytes(rng.getrandbits(8) for _ in range(40))
            body = body[:1 + 2 + 2 + 4 + max(0, 8 * n + 0) // 8 + 6 + 1 + 1 + rng.choice([0, 0, 2])]
            pk.append(list(defs.mk_packet(body, apid=rng.choice([5, 5, 5, 4, 6]), seq=rng.randrange(16384))))
        for route in (("obj",), ("obj", "shared"), ("obj", "rev"), ("xml", "prefix", False, False), ("xml", "default", True, False),
                      ("xml", "prefix", False, False, "rev")):
            try:
                x0 = xdoc.make(d, route)
            except Exception as e:  # noqa: BLE001
                ctx.violation("C09/lattice/build-failed", f"{pt} via {route}: {type(e).__name__}: {e}"[:300], {"points": pt, "route": list(route)})
                continue
            ctx.traces += 1
            ctx.count(("lattice", json.dumps(pt, sort_keys=True), route))
            nprob += compare(ctx, f"lattice {pt} via {route}", x0, d, pk, {"points": pt, "route": list(route)}, "C09/lattice")
    # ---- rich random definitions
    for i in range(40 if q else 800):
        g = gendefs.DefGen(rng).build()
        route = [("obj",), ("xml", "prefix", False, False), ("xml", "none", True, True), ("xml", "default", False, False), ("obj", "shared"), ("obj", "rev"),
                 ("xml", "prefix", True, False, "rev")][i % 7]
        try:
            x0 = xdoc.make(g.d, route)
        except Exception as e:  # noqa: BLE001
            ctx.violation("C09/rich/build-failed", f"{type(e).__name__}: {e}"[:300], {"defn": g.d, "route": list(route)})
            continue
        ctx.traces += 1
        ctx.count(("rich", i, route))
        compare(ctx, f"random definition {i} via {route}", x0, g.d, [g.packet() for _ in range(8)], {"defn": g.d, "route": list(route)}, "C09/rich")
    # ---- bundled and mission documents
    from space_packet_parser.xtce.definitions import XtcePacketDefinition
    files = sorted(glob.glob("/repo/tests/test_data/*.xml")) + sorted(glob.glob("/repo/tests/test_data/*/*.xml"))
    nfile = 0
    for f in files:
        head = open(f, "rb").read(3000).decode("utf-8", "ignore")
        prefix = "xtce" if 'xmlns:xtce="' in head else None
        try:
            with warnings.catch_warnings():
                warnings.simplefilter("ignore")
                x0 = XtcePacketDefinition.from_xtce(f, xtce_ns_prefix=prefix)
        except Exception:  # noqa: BLE001
            continue
        pk = []
        for data in sorted(glob.glob(f.rsplit("/", 1)[0] + "/*"))[:6]:
            import os as _os
            if data.endswith(".xml") or data.endswith(".py") or not _os.path.isfile(data):
                continue
            raw = open(data, "rb").read(200000)
            off = 0
            while off + 6 <= len(raw) and len(pk) < 40:
                n = 7 + raw[off + 4] * 256 + raw[off + 5]
                if off + n > len(raw):
                    break
                pk.append(raw[off:off + n])
                off += n
        nfile += 1
        ctx.traces += 1
        ctx.count(("file", f))
        compare(ctx, f"document {f}", x0, None, pk[:40 if q else 400], {"file": f}, "C09/file")
    ctx.extra["documents_from_files"] = nfile
    if nfile < 5 and not ctx.violations:
        ctx.vacuity(f"only {nfile} bundled documents could be loaded for the round trip")
    ctx.sample({"lattice_point": cases[3], "routes": ["obj", "xml/prefix", "xml/default namespace with defaults omitted"]}, limit=2)
    ctx.sample({"lattice_points_pair": cases[len(pts) + 1]}, limit=3)


def replay(ctx, obj):
    if "points" in obj:
        d = lattice_defn(obj["points"])
        x0 = xdoc.make(d, tuple(obj["route"]))
        compare(ctx, "replay", x0, d, [obj["pkt"]] if "pkt" in obj else [], obj, "C09/lattice")
    elif "defn" in obj:
        x0 = xdoc.make(obj["defn"], tuple(obj["route"]))
        compare(ctx, "replay", x0, obj["defn"], [obj["pkt"]] if "pkt" in obj else [], obj, "C09/rich")
    print("violations:", len(ctx.violations))
