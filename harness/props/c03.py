"""C03 - bit-cursor reads return exactly the addressed bits and advance by the width."""
import json

from harness import core, tables

META = {"title": "Bit-cursor reads return exactly the addressed bits and advance by the width"}


def do_read(packets, buf, p, n, op):
    r = packets.RawPacketData(bytes(buf))
    r.pos = p
    v = r.read_as_int(n) if op == "int" else r.read_as_bytes(n)
    return v, r.pos, bytes(r)


def run(ctx):
    from space_packet_parser import packets
    q = ctx.quick
    ctx.rule = ("TLC: every 3-byte buffer over a 5-symbol byte alphabet x every (p, n) with p+n <= 24 x both reads; the code's "
                "arithmetic (byte window, big-endian value, shift, mask; aligned fast path) is checked against the declarative "
                "bit slice. A: every row of that table replayed on RawPacketData. B: random buffers up to 4 kB and widths up to "
                "thousands of bits logged from the real reads and re-evaluated by Trace_Cursor. distinct = (buffer, p, n, op).")
    ctx.assumptions = ["wide results are compared as bit / byte sequences (TLC integers are 32-bit)"]
    r = ctx.tlc_expect_ok("MC_Cursor", "MC_Cursor.cfg", coverage=True, tag="all-3-byte")
    ctx.require_actions(r, ["ReadIntFast", "ReadIntShift", "ReadBytesFast", "ReadBytesShift"])
    ctx.exhaustive = True
    # ---- A: table export and replay
    import os
    cfg = os.path.join(ctx.work, "gen.cfg")
    with open(cfg, "w") as f:
        f.write("SPECIFICATION MCSpec\nCONSTANTS\n  Alphabet = {0, 255, 165, 60, 129}\n  NBytes = %d\nINVARIANT Export\n"
                "CHECK_DEADLOCK FALSE\n" % (2 if q else 3))
    rg = ctx.tlc_expect_ok("MC_Cursor", cfg, workers=1, count=False, tag="export-table")
    nrow = 0
    for line in rg.printed:
        row = json.loads(core.parse_printed(line)[1])
        nrow += 1
        buf, p, n, op = row["b"], row["p"], row["n"], row["op"]
        ctx.count(("A", tuple(buf), p, n, op))
        ctx.traces += 1
        try:
            v, pos, after = do_read(packets, buf, p, n, op)
            got = [v] if op == "int" else list(v)
            prob = None
            if got != row["v"]:
                prob = f"{op} read returned {got}, specification {row['v']}"
            elif pos != row["q"]:
                prob = f"cursor {pos}, specification {row['q']}"
            elif after != bytes(buf):
                prob = "buffer changed"
        except Exception as e:  # noqa: BLE001
            prob = f"exception {type(e).__name__}: {e}"
        if prob:
            ctx.violation(f"C03/replay/{op}/{'aligned' if p % 8 == 0 and n % 8 == 0 else 'unaligned'}", prob,
                          {"b": buf, "p": p, "n": n, "op": op})
        if n > 8 and p % 8:
            ctx.sample({"direction": "spec->code", **row}, limit=3)
    ctx.extra["A_rows"] = nrow
    if nrow < 1000:
        raise core.MachineryError(f"table export too small: {nrow}")
    # ---- B: random large buffers
    rng = ctx.rng
    rows = []
    meta = []
    N = 2500 if q else 40000
    for i in range(N):
        L = rng.choice([1, 2, 3, 5, 8, 16, 33, 64, 200, 1024, 4096]) if rng.random() < 0.7 else rng.randint(1, 300)
        buf = bytes(rng.getrandbits(8) for _ in range(L)) if rng.random() < 0.8 else bytes([rng.choice([0, 255])] * L)
        mode = rng.randrange(5)
        if mode == 0:
            p = 8 * rng.randint(0, L)
            n = 8 * rng.randint(0, L - p // 8)
        elif mode == 1:
            p = rng.randint(0, 8 * L)
            n = 8 * L - p
        else:
            p = rng.randint(0, 8 * L)
            n = rng.randint(0, 8 * L - p)
            if rng.random() < 0.5:
                n = min(n, rng.choice([0, 1, 7, 8, 9, 15, 16, 17, 31, 32, 33, 63, 64, 65]))
        if i % 10 == 0 and L >= 6:
            # the positions and widths of the CCSDS header fields are reads like any other: the bits of the buffer, whatever a header
            # accessor would say about this buffer (its length field rarely matches its length)
            p, n = [(0, 3), (3, 1), (4, 1), (5, 11), (16, 2), (18, 14), (32, 16), (0, 16), (16, 16), (0, 48)][(i // 10) % 10]
        if i % 10 == 5:
            # byte-aligned reads of the standard machine widths with the top bit set (and clear): no width is special
            n = (8, 16, 32, 64, 128, 24, 40, 56, 72)[(i // 10) % 9]
            p = (0, 8, 64)[(i // 90) % 3]
            L = max(L, (p + n) // 8 + 1)
            buf = bytearray(rng.getrandbits(8) for _ in range(L))
            buf[p // 8] = (0xFF, 0x80, 0x7F, 0x00)[(i // 270) % 4]
            buf = bytes(buf)
        op = rng.choice(["int", "bytes"])
        try:
            v, pos, after = do_read(packets, buf, p, n, op)
        except Exception as e:  # noqa: BLE001
            ctx.violation(f"C03/trace/exception/{op}", f"{type(e).__name__}: {e}", {"b": list(buf), "p": p, "n": n, "op": op})
            continue
        if after != buf:
            ctx.violation(f"C03/trace/buffer/{op}", "buffer changed", {"b": list(buf), "p": p, "n": n, "op": op})
        enc = tables.int_to_bits(v, n) if op == "int" else list(v)
        rows.append({"b": list(buf), "p": p, "n": n, "op": op, "v": enc, "q": pos})
        meta.append((buf, p, n, op))
        ctx.count(("B", buf, p, n, op))
    # ---- one RawPacketData object read many times, the cursor set forwards and backwards in between (each read is still the function
    # of buffer, position and width that the specification defines: nothing an earlier read did may matter)
    for t in range(60 if q else 600):
        L = rng.choice([2, 3, 4, 8, 9, 16, 40])
        buf = bytes(rng.getrandbits(8) for _ in range(L))
        r_ = packets.RawPacketData(buf)
        for _ in range(12):
            p = rng.randint(0, 8 * L)
            n = min(rng.choice([0, 1, 3, 7, 8, 9, 16, 17, 24, 33, 64]), 8 * L - p)
            op = rng.choice(["int", "int", "bytes"])
            r_.pos = p
            try:
                v = r_.read_as_int(n) if op == "int" else r_.read_as_bytes(n)
            except Exception as e:  # noqa: BLE001
                ctx.violation(f"C03/trace/exception/{op}", f"{type(e).__name__}: {e} (object read repeatedly)", {"b": list(buf), "p": p, "n": n, "op": op})
                break
            rows.append({"b": list(buf), "p": p, "n": n, "op": op, "v": tables.int_to_bits(v, n) if op == "int" else list(v), "q": r_.pos})
            meta.append((buf, p, n, op))
            ctx.count(("C", buf, p, n, op, t))
    rej = tables.validate_lines(ctx, "Trace_Cursor", rows, "reads", jobs=16)
    for idx, clause in rej.items():
        buf, p, n, op = meta[idx]
        ctx.violation(f"C03/trace/{clause[0]}/{op}/{'aligned' if p % 8 == 0 and n % 8 == 0 else 'unaligned'}",
                      f"logged {op} read rejected by Trace_Cursor: clause {clause[0]}", {"b": list(buf), "p": p, "n": n, "op": op})
    ctx.sample({"direction": "code->spec", "buffer_len": len(rows[0]["b"]), "p": rows[0]["p"], "n": rows[0]["n"],
                "op": rows[0]["op"], "result_head": rows[0]["v"][:16]}, limit=5)


def replay(ctx, obj):
    from space_packet_parser import packets
    v, pos, after = do_read(packets, obj["b"], obj["p"], obj["n"], obj["op"])
    enc = tables.int_to_bits(v, obj["n"]) if obj["op"] == "int" else list(v)
    rej = tables.validate_lines(ctx, "Trace_Cursor", [{"b": obj["b"], "p": obj["p"], "n": obj["n"], "op": obj["op"], "v": enc, "q": pos}], "replay", jobs=1)
    print("result:", v, "pos:", pos, "rejected:", rej)
    for idx, clause in rej.items():
        ctx.violation(f"C03/trace/{clause[0]}/{obj['op']}", "replay rejected", obj)
