"""C06 - match criteria evaluate to the mathematical truth of their comparisons."""
import itertools
import json

from harness import crit, tables

META = {"title": "Match criteria evaluate to the mathematical truth of their comparisons"}
OPS = ["eq", "ne", "lt", "gt", "le", "ge"]


def values_small():
    """boundary values in every numeric kind: (derived, raw) pairs"""
    out = []
    for n in (-1, 0, 1, 2):
        out.append((crit.tv_int(n), crit.tv_int(n)))
        out.append((crit.tv_flt(n), crit.tv_flt(n)))
        out.append((crit.tv_flt(2 * n + 1, 2), crit.tv_int(n)))       # calibrated float n+0.5 with int raw n
    out.append((crit.tv_bool(False), crit.tv_int(0)))
    out.append((crit.tv_bool(True), crit.tv_int(1)))
    out.append((crit.tv_str("ON"), crit.tv_int(1)))                    # enumerated label with int raw
    out.append((crit.tv_str("OFF"), crit.tv_int(0)))
    out.append((crit.tv_str("ON "), crit.tv_int(2)))                   # blanks are characters: 'ON ' is not 'ON'
    return out


LITS = [crit.lit_num(True, 1), crit.lit_num(False, 0), crit.lit_num(False, 1), crit.lit_num(False, 2),
        crit.lit_num(False, 1, (5,)), crit.lit_num(False, 0, (0,)), crit.lit_txt("x"), crit.lit_txt("ON"), crit.lit_txt("ON "), crit.lit_txt(" ON")]


def case(kind, expr, env, cur=None):
    return {"kind": kind, "expr": expr, "env": env, "cur": cur or crit.NONE}


def enum_cmp():
    for (v, r) in values_small():
        env = [{"name": "P", "v": v, "r": r}]
        for op in OPS:
            for sp in crit.SPELL[op]:
                for cal in (True, False):
                    for lit in LITS:
                        yield case("cmp", {"k": "cmp", "ref": "P", "op": sp, "cal": cal, "lit": lit}, env)
    # self reference through the current raw value (parameter not yet in the packet)
    for cur in (crit.tv_int(0), crit.tv_int(3), crit.tv_flt(3), crit.tv_flt(0)):
        for op in OPS:
            for lit in LITS[:6]:
                yield case("cmp", {"k": "cmp", "ref": "SELF", "op": crit.SPELL[op][0], "cal": False, "lit": lit}, [], cur)


def enum_cond():
    vals = values_small()
    for (lv, lr), (rv, rr) in itertools.product(vals, vals):
        if (lv["t"] == "str") != (rv["t"] == "str"):
            continue
        env = [{"name": "L", "v": lv, "r": lr}, {"name": "R", "v": rv, "r": rr}]
        for op in OPS:
            for lcal, rcal in ((True, True), (False, False), (True, False)):
                yield case("cond", {"k": "cond", "l": "L", "lcal": lcal, "op": crit.SPELL[op][0], "rk": "param", "r": "R",
                                    "rcal": rcal, "lit": crit.lit_num(False, 0)}, env)
    for (lv, lr) in vals:
        env = [{"name": "L", "v": lv, "r": lr}]
        for op in OPS:
            for sp in crit.SPELL[op][:2]:
                for lit in LITS:
                    for lcal in (True, False):
                        yield case("cond", {"k": "cond", "l": "L", "lcal": lcal, "op": sp, "rk": "lit", "r": "", "rcal": False,
                                            "lit": lit}, env)


def leaf(name, op="==", litv=1, cal=True):
    return {"k": "cond", "l": name, "lcal": cal, "op": op, "rk": "lit", "r": "", "rcal": False, "lit": crit.lit_num(False, litv)}


def shapes(depth, kind, budget):
    """all ANDed/ORed groups of the given kind with at most `budget` leaves and nesting <= depth; leaves are A or B"""
    other = "or" if kind == "and" else "and"
    out = []
    leaves = [leaf("A"), leaf("B"), leaf("A", cal=False)]     # the third differs from the first only in the value selector
    for nc in range(0, 3):
        for conds in itertools.product(leaves, repeat=nc):
            rem = budget - nc
            subs_options = [[]]
            if depth > 1 and rem >= 1:
                subs1 = shapes(depth - 1, other, rem)
                subs_options += [[s] for s in subs1]
                if rem >= 2:
                    small = shapes(depth - 1, other, rem - 1)
                    subs_options += [[s, t] for s in small for t in small if count(s) + count(t) <= rem]
            for groups in subs_options:
                if nc + len(groups) == 0:
                    continue
                e = {"k": kind, "conds": list(conds), "groups": groups}
                if count(e) <= budget:
                    out.append(e)
    return out


def count(e):
    return 1 if e["k"] == "cond" else len(e["conds"]) + sum(count(g) for g in e["groups"])


def enum_bool(depth, budget):
    exprs = [leaf("A")] + shapes(depth, "and", budget) + shapes(depth, "or", budget)
    for e in exprs:
        for a, b in itertools.product((0, 1), repeat=2):
            # A's raw value is the complement of its derived value, so that the two selectors disagree
            env = [{"name": "A", "v": crit.tv_int(a), "r": crit.tv_int(1 - a)}, {"name": "B", "v": crit.tv_int(b), "r": crit.tv_int(b)}]
            yield case("bool", e, env)


def enum_lists():
    for a, b in itertools.product((0, 1, 2), repeat=2):
        env = [{"name": "A", "v": crit.tv_int(a), "r": crit.tv_int(a)}, {"name": "B", "v": crit.tv_flt(2 * b + 1, 2), "r": crit.tv_int(b)}]

        def cmp(ref, op, n, cal=True):
            return {"k": "cmp", "ref": ref, "op": op, "cal": cal, "lit": crit.lit_num(False, n)}
        items_sets = [[cmp("A", "==", 0)], [cmp("A", ">=", 1), cmp("B", "<", 2)], [cmp("A", "!=", 1), cmp("B", "==", 1, False)],
                      [cmp("A", "<", 2), cmp("A", ">", 0), cmp("B", ">=", 1, False)]]
        for items in items_sets:
            yield case("list", {"k": "list", "items": items}, env)
        for perm in itertools.permutations(range(len(items_sets)), 3):
            entries = [{"items": items_sets[i], "val": 8 * (j + 1) + 64 * i} for j, i in enumerate(perm)]
            yield case("lookup", {"k": "lookup", "entries": entries}, env)


def rand_case(rng):
    names = ["P%d" % i for i in range(rng.randint(1, 5))]

    def rv():
        k = rng.random()
        if k < 0.4:
            n = rng.choice([0, 0, 1, -1, 2, rng.randint(-4096, 4096)])
            return crit.tv_int(n), crit.tv_int(n)
        if k < 0.7:
            num = rng.choice([0, 1, -1, rng.randint(-2048, 2048)])
            den = rng.choice([1, 1, 2, 4, 8])
            raw = rng.randint(0, 255)
            return crit.tv_flt(num, den), crit.tv_int(raw)
        if k < 0.8:
            b = rng.random() < 0.5
            return crit.tv_bool(b), crit.tv_int(int(b))
        s = rng.choice(["ON", "OFF", "IDLE"])
        return crit.tv_str(s), crit.tv_int(rng.randint(0, 3))
    env = []
    for n in names:
        v, r = rv()
        env.append({"name": n, "v": v, "r": r})

    def rlit(for_str=False):
        if for_str:
            return crit.lit_txt(rng.choice(["ON", "OFF", "IDLE", "x"]))
        fd = rng.choice([(), (), (), (5,), (2, 5), (7, 5), (0,)])
        return crit.lit_num(rng.random() < 0.3, rng.choice([0, 0, 1, 2, rng.randint(0, 4096)]), fd)

    def rcond():
        lname = rng.choice(names)
        lcal = rng.random() < 0.6
        e = next(x for x in env if x["name"] == lname)
        lt = (e["v"] if lcal else e["r"])["t"]
        op = rng.choice(OPS if lt != "str" else ["eq", "ne"])
        sp = rng.choice(crit.SPELL[op][:2])
        cands = [x for x in env if ((x["v"]["t"] == "str") == (lt == "str"))]
        if cands and rng.random() < 0.5:
            r = rng.choice(cands)
            rcal = r["v"]["t"] == "str" if lt == "str" else rng.random() < 0.5
            if lt != "str" or rcal:
                return {"k": "cond", "l": lname, "lcal": lcal, "op": sp, "rk": "param", "r": r["name"], "rcal": rcal, "lit": crit.lit_num(False, 0)}
        return {"k": "cond", "l": lname, "lcal": lcal, "op": sp, "rk": "lit", "r": "", "rcal": False, "lit": rlit(lt == "str")}

    def rgroup(kind, depth):
        conds = [rcond() for _ in range(rng.randint(0, 3))]
        groups = [rgroup("or" if kind == "and" else "and", depth - 1) for _ in range(rng.randint(0, 2))] if depth > 0 else []
        if not conds and not groups:
            conds = [rcond()]
        return {"k": kind, "conds": conds, "groups": groups}

    def rcmp():
        ref = rng.choice(names)
        cal = rng.random() < 0.6
        e = next(x for x in env if x["name"] == ref)
        t = (e["v"] if cal else e["r"])["t"]
        op = rng.choice(OPS if t != "str" else ["eq", "ne"])
        return {"k": "cmp", "ref": ref, "op": rng.choice(crit.SPELL[op]), "cal": cal, "lit": rlit(t == "str")}
    k = rng.random()
    if k < 0.45:
        return case("bool", rgroup(rng.choice(["and", "or"]), rng.randint(0, 4)), env)
    if k < 0.6:
        return case("cmp", rcmp(), env)
    if k < 0.7:
        return case("cond", rcond(), env)
    if k < 0.85:
        return case("list", {"k": "list", "items": [rcmp() for _ in range(rng.randint(1, 4))]}, env)
    return case("lookup", {"k": "lookup", "entries": [{"items": [rcmp() for _ in range(rng.randint(1, 3))], "val": 8 * rng.randint(1, 64)}
                                                      for _ in range(rng.randint(1, 4))]}, env)


def run(ctx):
    q = ctx.quick
    ctx.rule = ("Criteria.tla evaluated by TLC on (A) the exhaustive small space: six relations x every accepted spelling x both "
                "value selectors x 8 literals x boundary values as int / float / calibrated float with int raw / bool / enum label; "
                "conditions over every pair of value kinds; every ANDed/ORed shape up to the depth and leaf bound over two leaf "
                "conditions x all 4 truth assignments; comparison lists and every order of 3-entry lookups; and (B) random criteria "
                "trees and assignments. Each case is evaluated by the real classes built through constructors and through XML "
                "(explicit and omitted defaults) and compared by Trace_Criteria; the specification also checks its own De Morgan "
                "duality on every boolean case. One evaluator object per (expression, route) evaluates all its environments, in shuffled order. "
                "distinct = distinct (expression, environment, construction route).")
    ctx.assumptions = ["values are within +-2^12 with dyadic fractions so 32-bit cross-multiplication is exact",
                       "ordering of strings and relations whose literal is not expressible in the operand's type are 'undefined' "
                       "(any answer accepted), as are expressions with a missing operand"]
    cases = list(enum_cmp()) + list(enum_cond()) + list(enum_bool(3, 4 if q else 5)) + list(enum_lists())
    ctx.extra["A_cases"] = len(cases)
    rng = ctx.rng
    rcases = [rand_case(rng) for _ in range(3000 if q else 60000)]
    ctx.extra["B_cases"] = len(rcases)
    lines = []
    shared, hist = {}, {}
    order = list(enumerate(cases + rcases))
    head = order[:len(cases)]
    rng.shuffle(head)           # one evaluator object sees its environments in no particular order
    order[:len(cases)] = head
    for i, c in order:
        routes = [("ctor", False)]
        if crit.xml_ok(c["expr"]):
            routes += [("xml", False), ("xml", True)] if (i < len(cases) or i % 3 == 0) else [("xml", bool(i % 2))]
        if i < len(cases) and q and c["kind"] in ("cmp", "cond") and i % 2:
            routes = routes[:1] if i % 4 == 1 else routes[-1:]
        for via, od in routes:
            obs, obsn = crit.observe(c["kind"], c["expr"], c["env"], c["cur"], via, od, shared=shared)
            h = hist.setdefault((c["kind"], json.dumps(c["expr"], sort_keys=True), via, od), [])
            ln = dict(c, obs=obs, obsn=obsn, via=via + ("-defaults-omitted" if od else ""), src="A" if i < len(cases) else "B", nprev=len(h))
            lines.append(ln)
            h.append(len(lines) - 1)
    # ---- S: the same comparisons far outside the small domain: every value and literal moved up by 2^53 / 2^63 / 2^64 on the real
    # side (exact integers and exactly representable floats only); the relations are translation invariant, so the specification's
    # verdict on the small values is the verdict (an int must not be compared through a float, a literal not parsed through one)
    nshift = 0
    for i, c in enumerate(cases):
        if c["kind"] not in ("cmp", "cond"):
            continue
        B = (2 ** 53, 2 ** 63, 2 ** 64)[i % 3]
        rc = crit.shifted(c, B)
        if rc is None:
            continue
        via, od = (("ctor", False), ("xml", False), ("xml", True))[i % 3] if crit.xml_ok(c["expr"]) else ("ctor", False)
        obs, obsn = crit.observe(rc["kind"], rc["expr"], rc["env"], rc["cur"], via, od)
        lines.append(dict(c, obs=obs, obsn=obsn, via=via + ("-defaults-omitted" if od else ""), src="S", nprev=0, shiftp=(53, 63, 64)[i % 3]))
        nshift += 1
    ctx.extra["S_cases_shifted"] = nshift
    if nshift < 500:
        ctx.vacuity(f"only {nshift} shifted comparison cases")
    for ln in lines:
        ctx.count((ln["src"], ln["via"], repr(ln["expr"]), repr(ln["env"]), repr(ln["cur"]), ln.get("shiftp", 0)))
    rej = tables.validate_lines(ctx, "Trace_Criteria", lines, "crit", jobs=16)
    for idx, clause in rej.items():
        ln = lines[idx]
        if clause[0] == "selfcheck":
            from harness import core
            raise core.MachineryError(f"Criteria.tla fails its own duality check on {ln['expr']}")
        sig = f"C06/{ln['kind']}/{'exception' if ln['obs'] == 'X' else 'wrong-' + ln['obs']}/{ln['via'].split('-')[0]}"
        payload = {k: ln[k] for k in ("kind", "expr", "env", "cur", "via")}
        if ln.get("shiftp"):
            sig += "/large-values"
            payload["shiftp"] = ln["shiftp"]
        if ln["nprev"]:
            via, od = ln["via"].split("-")[0], "omitted" in ln["via"]
            if crit.observe(ln["kind"], ln["expr"], ln["env"], ln["cur"], via, od) != (ln["obs"], ln["obsn"]):
                sig += "/depends-on-earlier-evaluations"
                h = hist[(ln["kind"], json.dumps(ln["expr"], sort_keys=True), via, od)]
                payload["history"] = [{k: lines[j][k] for k in ("env", "cur")} for j in h[:h.index(idx)]][-40:]
        ctx.violation(sig, f"{ln['kind']} {ln['expr']} with env {ln['env']} cur {ln['cur']} via {ln['via']}: real result {ln['obs']}"
                      f"{ln['obsn'] if ln['obs'] == 'V' else ''}, specification {clause[1]}{clause[2] if clause[1] == 'V' else ''}", payload)
    for ln in lines:
        if ln["kind"] == "bool" and count(ln["expr"]) >= 4:
            ctx.sample({k: ln[k] for k in ("kind", "expr", "env", "obs", "via")}, limit=2)
            break
    ctx.sample({k: lines[5][k] for k in ("kind", "expr", "env", "obs", "via")}, limit=4)
    ctx.sample({k: lines[-1][k] for k in ("kind", "expr", "env", "obs", "via")}, limit=5)
    ctx.exhaustive = True
    ctx.extra["lines"] = len(lines)
    ctx.extra["obs_counts"] = {o: sum(1 for ln in lines if ln["obs"] == o) for o in ("T", "F", "X", "V", "N")}


def replay(ctx, obj):
    via = obj.get("via", "ctor")
    shared = {}
    for h in obj.get("history", []):
        crit.observe(obj["kind"], obj["expr"], h["env"], h["cur"], via.split("-")[0], "omitted" in via, shared=shared)
    real = crit.shifted(obj, 2 ** obj["shiftp"]) if obj.get("shiftp") else obj
    obs, obsn = crit.observe(real["kind"], real["expr"], real["env"], real["cur"], via.split("-")[0], "omitted" in via, shared=shared)
    ln = dict(obj, obs=obs, obsn=obsn)
    rej = tables.validate_lines(ctx, "Trace_Criteria", [ln], "replay", jobs=1)
    print("observed:", obs, obsn, "rejected:", rej)
    for idx, clause in rej.items():
        ctx.violation(f"C06/{obj['kind']}/replay", f"specification {clause}", obj)
