"""Shared by C02 and C10 (and C13's framing clause): Framer.tla model checking, spec->code replay of an edge
cover of the dumped state graph, code->spec trace validation."""
import json
import os

from harness import core, framer_io
from harness.tlaval import edge_cover, load_dot

ACTIONS = ["TopStop", "Top", "Trim", "NoTrim", "HdrReady", "HdrReadAny", "Hdr", "BodyReady", "BodyReadAny", "Emit"]
GIVEUP = ["HdrGiveUp", "BodyGiveUp"]


def write_cfg(ctx, name, consts, invariants, props=(), spec="MCSpec"):
    path = os.path.join(ctx.work, name)
    with open(path, "w") as f:
        f.write(f"SPECIFICATION {spec}\nCONSTANTS\n")
        for k, v in consts.items():
            f.write(f"  {k} = {v}\n")
        for i in invariants:
            f.write(f"INVARIANT {i}\n")
        for p in props:
            f.write(f"PROPERTY {p}\n")
        f.write("CHECK_DEADLOCK FALSE\n")
    return path


def tla_set(xs):
    return "{" + ", ".join(str(x) for x in xs) + "}"


INVS = ["TypeOK", "OutIsPrefix", "OnlyComplete", "AccountingExact", "WindowOK", "DoneExact", "NoCrash"]


def model_check(ctx, consts, need_giveup, tag, liveness=True, extra_actions=()):
    cfg = write_cfg(ctx, f"mc-{tag}.cfg", consts, INVS, ["Terminates", "ConfigFixed"] if liveness else ["ConfigFixed"])
    r = ctx.tlc_expect_ok("MC_Framer", cfg, coverage=True, tag=tag)
    ctx.require_actions(r, ACTIONS + (GIVEUP if need_giveup else []) + list(extra_actions))
    ctx.extra.setdefault("action_counts", {})[tag] = {k: v[1] for k, v in r.actions.items()
                                                      if k in ACTIONS + GIVEUP}
    return r


def asis_counterexample(ctx):
    """The pinned tree's behaviour, kept as AsIs_* actions, must violate the invariants (regression model and
    vacuity check of NoCrash / OnlyComplete)."""
    r = ctx.tlc("MC_Framer", "MC_FramerAsIs.cfg", workers=2, count=False, tag="as-is")
    if r.violated not in ("NoCrash", "OnlyComplete"):
        raise core.MachineryError(f"as-is framer model no longer violates NoCrash/OnlyComplete: {r.violated} {r.error}")
    ctx.extra["asis_model_violates"] = r.violated


def _stream_bytes(st):
    s = st["stream"]
    if s == [] or s == {}:
        return b""
    if isinstance(s, list):          # TLC prints a function with domain 1..n as a tuple; ours is 0..n-1
        return bytes(s)
    fn = s.get("__fn__", {})
    return bytes(fn[i] for i in range(len(fn)))


def replay_path(g, path, pid, ctx, via="ccsds", kinds=None):
    """Drive the real framer along one model path; compare what it yields with the model's `out`."""
    s0 = g.state(path[0])
    data = _stream_bytes(s0)
    kind, rsize, skip = s0["kind"], s0["rsize"], s0["skip"]
    chunks = []
    prev = s0
    for a, n in path[1:]:
        st = g.state(n)
        if st["srcpos"] > prev["srcpos"]:
            chunks.append(st["srcpos"] - prev["srcpos"])
        prev = st
    last = prev
    done = last["pc"] == "done"
    exp = [(o["start"], o["n"]) for o in last["out"]]
    results = []
    variants = [kind] if kind != "file" else ["file", "rfile"]
    for k in variants:
        script = framer_io.Script(chunks)
        ev, items, outcome = framer_io.run_framer(data, k, rsize, skip, chooser=script,
                                                  max_items=len(exp) + 2, via=via)
        case = {"data": list(data), "kind": k, "rsize": rsize, "skip": skip, "chunks": chunks,
                "expected": exp, "via": "ccsds" if isinstance(via, str) else "packet_generator"}
        got = [bytes(i) for i in items]
        want = [data[s:s + n] for s, n in exp]
        prob = None
        if outcome != "stop":
            prob = f"outcome {outcome} (model: terminates with {len(exp)} packets)"
        elif done and got != want:
            prob = f"yielded {[len(x) for x in got]} bytes-items, model {[n for _, n in exp]}; content equal: {got == want}"
        elif not done and got[:len(want)] != want:
            prob = "prefix mismatch"
        if kind == "sock" and script.mismatch:
            ctx.tally("A_chunk_schedule_diverged")   # a different refill policy; not a violation by itself
        results.append((case, prob, ev))
    return results


def direction_a(ctx, pid, consts, tag, max_paths=None, via="ccsds"):
    cfg = write_cfg(ctx, f"gen-{tag}.cfg", consts, ["TypeOK"], spec="MCInitNext")
    dump = os.path.join(ctx.work, f"graph-{tag}")
    ctx.tlc_expect_ok("MC_Framer", cfg, dump=dump, count=False, tag="dump-" + tag, workers=8)
    g = load_dot(dump + ".dot")
    paths, ncov = edge_cover(g, rng=ctx.rng, max_paths=max_paths)
    ctx.extra.setdefault("graphs", {})[tag] = {"nodes": len(g.state_text), "edges": g.nedges, "edges_covered": ncov,
                                               "paths": len(paths)}
    if not max_paths and ncov < g.nedges:
        raise core.MachineryError(f"edge cover incomplete: {ncov}/{g.nedges}")
    traces = []
    for path in paths:
        for case, prob, ev in replay_path(g, path, pid, ctx, via=via):
            ctx.count(("A", case["kind"], case["rsize"], case["skip"], tuple(case["data"]), tuple(case["chunks"])))
            ctx.traces += 1
            ctx.tally("A_paths_" + case["kind"])
            if len(case["expected"]) >= 2 and case["chunks"]:
                ctx.sample({"direction": "spec->code", **{k: case[k] for k in ("kind", "rsize", "skip", "chunks", "expected")},
                            "data_len": len(case["data"])}, limit=3)
            if prob:
                ctx.violation(f"{pid}/replay/{case['kind']}", prob, {"mode": "replay", **case})
            traces.append((case, ev))
    os.unlink(dump + ".dot")
    return traces


def validate_traces(ctx, pid, runs, tag, trim_at=20_000_000, default_sock=4096):
    """runs: list of (data, kind, rsize, skip, events, meta). Validate with Trace_Framer; returns verdicts."""
    recs = []
    for i, (data, kind, rsize, skip, ev, meta) in enumerate(runs, 1):
        recs.append(framer_io.trace_record(i, data, kind, rsize, skip, ev))
    path = os.path.join(ctx.work, f"trace-{tag}.ndjson")
    core.write_ndjson(path, recs)
    cfg = os.path.join(ctx.work, f"trace-{tag}.cfg")
    with open(cfg, "w") as f:
        f.write(f"INIT TraceInit\nNEXT TraceNext\nCONSTANTS\n  TrimAt = {trim_at}\n  DefaultSock = {default_sock}\n"
                "  AsIs = FALSE\n  Eager = TRUE\nINVARIANT TraceInv\nCHECK_DEADLOCK FALSE\n")
    r = ctx.tlc("Trace_Framer", cfg, workers=1, env={"TRACE_FILE": path}, tag="trace-" + tag, count=True)
    if not r.ok():
        raise core.MachineryError(f"trace validation run failed: {r.error}\n" + "\n".join(r.stdout.splitlines()[-30:]))
    verdict = {}
    for line in r.printed:
        v = core.parse_printed(line)
        if v[0] in ("ACCEPT", "REJECT"):
            verdict[v[1]] = v
    if len(verdict) != len(recs):
        raise core.MachineryError(f"trace verdicts {len(verdict)} != traces {len(recs)}")
    for i, (data, kind, rsize, skip, ev, meta) in enumerate(runs, 1):
        v = verdict[i]
        ctx.traces += 1
        ctx.count(("B", kind, rsize, skip, len(data), meta.get("label", ""), tuple(e["got"] for e in ev if e["ev"] == "read")))
        ctx.tally("B_traces_" + kind)
        items = meta.get("items")
        if v[0] == "ACCEPT":
            out = json.loads(v[4])
            if items is not None:
                want = [data[o["start"]:o["start"] + o["n"]] for o in out]
                if [bytes(x) for x in items] != want:
                    ctx.violation(f"{pid}/content/{kind}", "yielded bytes differ from the input slices the model emitted",
                                  {"mode": "trace", "data": list(data) if len(data) < 4096 else None, "kind": kind,
                                   "rsize": rsize, "skip": skip, "label": meta.get("label")})
        else:
            ctx.violation(f"{pid}/trace/{kind}/{v[3]}",
                          f"trace rejected at event {v[2]} (model pc/clause {v[3]}): next event {v[4]}",
                          {"mode": "trace", "data": list(data) if len(data) < 4096 else None, "kind": kind,
                           "rsize": rsize, "skip": skip, "label": meta.get("label"),
                           "chunks": [e["got"] for e in ev if e["ev"] == "read"]})
    return verdict


def record(data, kind, rsize, skip, rng, max_items, label, chooser=None, via="ccsds"):
    ch = chooser or (lambda lim: rng.randint(1, lim))
    ev, items, outcome = framer_io.run_framer(data, kind, rsize, skip, chooser=ch, max_items=max_items, via=via)
    return (data, kind, rsize, skip, ev, {"label": label, "items": items, "outcome": outcome})


OS_KINDS = ("rb", "rb-small-buffer", "r+b", "w+b-unflushed", "w+b-partly-flushed", "tmpfile-unflushed", "buffered-reader", "gzip", "bz2", "lzma")


def _open_os_source(kind, data, cut, td):
    """A real file object of the given kind holding `data` (cut: a byte offset at which a writer flushed, for the partly flushed kind)."""
    import bz2
    import gzip
    import io
    import lzma
    import tempfile
    path = os.path.join(td, "stream.bin")
    if kind in ("rb", "rb-small-buffer", "r+b"):
        with open(path, "wb") as f:
            f.write(data)
        return open(path, "rb") if kind == "rb" else open(path, "rb", buffering=16) if kind == "rb-small-buffer" else open(path, "r+b")
    if kind == "w+b-unflushed":
        f = open(path, "w+b", buffering=1 << 20)
        f.write(data)
        return f
    if kind == "w+b-partly-flushed":
        f = open(path, "w+b", buffering=1 << 20)
        f.write(data[:cut])
        f.flush()
        f.write(data[cut:])
        return f
    if kind == "tmpfile-unflushed":
        f = tempfile.TemporaryFile(dir=td)
        f.write(data)
        return f
    if kind == "buffered-reader":
        return io.BufferedReader(io.BytesIO(data), buffer_size=8)
    mod = {"gzip": gzip, "bz2": bz2, "lzma": lzma}[kind]
    with mod.open(path + "." + kind, "wb") as f:
        f.write(data)
    return mod.open(path + "." + kind, "rb")


def os_sources_section(ctx, pid, cases, via="ccsds"):
    """Real file objects of every flavour the standard library hands out (read-only, read/write with pending writes, temporary,
    buffered wrappers, compressed) must frame a stream exactly like the in-memory file whose run the specification has validated.
    cases: (data, rsize, skip, flush offset). Differential against the model-validated BytesIO run: items, order, outcome."""
    import tempfile
    from harness import framer_io
    from space_packet_parser import packets
    n = 0
    for data, rsize, skip, cut in cases:
        _, base_items, base_outcome = framer_io.run_framer(data, "file", rsize, skip, max_items=400, via=via)
        want = [bytes(x) for x in base_items]
        for kind in OS_KINDS:
            with tempfile.TemporaryDirectory(prefix="spp-os-", dir=ctx.work) as td:
                src = _open_os_source(kind, data, cut, td)
                got, outcome = [], "stop"
                try:
                    kw = dict(buffer_read_size_bytes=None if rsize == 0 else rsize, skip_header_bytes=skip)
                    gen = packets.ccsds_generator(src, **kw) if isinstance(via, str) else via.packet_generator(src, **kw)
                    for p in gen:
                        got.append(bytes(p) if isinstance(p, bytes) else bytes(p.raw_data))
                        if len(got) > 400:
                            outcome = "abort"
                            gen.close()
                            break
                except Exception as e:  # noqa: BLE001
                    outcome = "raise:" + type(e).__name__
                finally:
                    src.close()
            n += 1
            ctx.traces += 1
            ctx.count(("os-source", kind, data[:64], len(data), rsize, skip, cut))
            if got != want or outcome != base_outcome:
                firstdiff = next((i for i, (a, b) in enumerate(zip(got, want)) if a != b), min(len(got), len(want)))
                ctx.violation(f"{pid}/os-source/{kind}", f"{kind} file object ({len(data)} bytes, read size {rsize}, prefix {skip}, flushed at {cut}): "
                              f"{len(got)} items, outcome {outcome}; the in-memory file gives {len(want)} items, outcome {base_outcome}; first difference at item {firstdiff}",
                              {"data": list(data) if len(data) < 40000 else None, "len": len(data), "kind": kind, "rsize": rsize, "skip": skip, "cut": cut})
    ctx.extra["os_source_runs"] = n


def progress_option_section(ctx, pid, cases, via="ccsds"):
    """show_progress=True only prints: the items, their order and the way the generator ends are those of the run without it
    (which the specification has validated) - for every source kind, also for empty and truncated input and a peer that closes early.
    cases: (data, kind, rsize, skip)."""
    import contextlib
    import io
    from harness import framer_io
    n = 0
    for data, kind, rsize, skip in cases:
        chunks = [max(1, len(data) // 3 or 1)] * 8
        _, base_items, base_outcome = framer_io.run_framer(data, kind, rsize, skip, chooser=framer_io.Script(list(chunks)), max_items=400, via=via)
        buf = io.StringIO()
        frozen = n % 3 == 2          # every third case: a clock that does not advance while the stream is framed (coarse timers exist)
        import time as _time
        real_ns = _time.time_ns
        t0 = real_ns()
        if frozen:
            _time.time_ns = lambda: t0
        try:
            with contextlib.redirect_stdout(buf):
                _, items, outcome = framer_io.run_framer(data, kind, rsize, skip, chooser=framer_io.Script(list(chunks)), max_items=400, via=via,
                                                         gen_kwargs={"show_progress": True})
        finally:
            _time.time_ns = real_ns
        n += 1
        ctx.traces += 1
        ctx.count(("show-progress", kind, data[:64], len(data), rsize, skip))
        a, b = [bytes(x) for x in base_items], [bytes(x) for x in items]
        if a != b or outcome != base_outcome:
            ctx.violation(f"{pid}/show-progress/{kind}/{'outcome' if outcome != base_outcome else 'items'}",
                          f"{kind} source of {len(data)} bytes (read size {rsize}, prefix {skip}): with show_progress=True {len(b)} items, outcome "
                          f"{outcome}; without it {len(a)} items, outcome {base_outcome}",
                          {"data": list(data) if len(data) < 40000 else None, "kind": kind, "rsize": rsize, "skip": skip, "option": "show_progress"})
    ctx.extra["show_progress_runs"] = n
