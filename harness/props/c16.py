"""C16 - loading is independent of lexical spelling and of earlier loads."""
import glob
import io
import os
import random

from harness import core, gendefs, project, xdoc
from harness.tlaval import edge_cover, load_dot

META = {"title": "Loading is independent of lexical spelling and of earlier loads"}
NONE = "<none>"
URI = xdoc.URI


def make_docs(seed, n):
    docs = {}
    rng = random.Random(seed)
    for i in range(1, n + 1):
        if i == 1:
            # one document with every element kind the renderer knows (default / context / spline / polynomial calibrators, linear
            # adjustments, time encodings, boolean expressions, units, descriptions): a comment or a prefix can land anywhere
            from harness.props import c09
            pts = {"DefaultCalibrator": "poly", "ContextCalibratorList": "two", "SplineCalibrator.order": str(seed % 2), "LinearAdjustment": "8x-8",
                   "TimeEncoding.scale/offset": "offset+scale", "BooleanExpression.shape": ("and-of-or", "or-of-and")[seed % 2], "Unit": "s",
                   "shortDescription": "short text", "LongDescription": "long text", "TerminationChar": "00", "ReferenceTime.Epoch": "TAI",
                   "BinaryLength": ("lookup-lists", "lookup")[seed % 2], "StringLength": ("lookup", "lookup-lists")[seed % 2],
                   "ContextMatch": ("comparisons", "boolean-expression")[seed % 2], "ReferenceTime.OffsetFrom": "N"}
            if seed % 2:
                pts["DefaultCalibrator"] = "spline"
                pts["LeadingSize"] = "8"
                del pts["TerminationChar"]
            d = c09.lattice_defn(pts)
            docs[i] = {"kind": "gen", "defn": d, "normal": project.normal(d)}
            continue
        g = gendefs.DefGen(rng, rich=(i % 2 == 0)).build()
        docs[i] = {"kind": "gen", "defn": g.d, "normal": project.normal(g.d)}
    return docs


def file_docs(start):
    out = {}
    files = ["/repo/tests/test_data/test_xtce.xml", "/repo/tests/test_data/test_xtce_default_namespace.xml",
             "/repo/tests/test_data/test_xtce_no_namespace.xml"] + sorted(glob.glob("/repo/tests/test_data/*/*.xml"))
    i = start
    for f in files:
        raw = open(f, "rb").read()
        head = raw[:3000].decode("utf-8", "ignore")
        if 'xmlns:xtce="' in head:
            style, prefix = "prefix", "xtce"
            uri = head.split('xmlns:xtce="')[1].split('"')[0]
        elif 'xmlns="' in head:
            style, prefix = "default", "xtce"
            uri = head.split('xmlns="')[1].split('"')[0]
        else:
            continue
        extra = [[k.split("xmlns:")[1], v] for k, v in __import__("re").findall(r'(xmlns:\w+)="([^"]+)"', head) if k != "xmlns:xtce"]
        out[i] = {"kind": "file", "path": f, "raw": raw, "style": style, "prefix": prefix, "uri": uri, "extra": extra, "baseline": None}
        i += 1
    return out


# the model's second prefix "foo" stands for any prefix name a document may choose; XML allows capitals, digits, '-', '_' and '.'.
# Names that share letters with XTCE element names (U..nit, Hdr/H..eader, S..paceSystem) are legitimate prefixes too.
SPELLINGS = ["foo", "U", "Hdr", "XTCE", "SPCEITBRLUDAFHMNOV", "x", "n-1", "a.b", "_p", "Parameter", "e"]


def actual_prefix(r, rng):
    if r["prefix"] != "foo" or r["style"] != "prefix":
        return r["prefix"]
    if "_actual" not in r:
        r["_actual"] = rng.choice(SPELLINGS)
    return r["_actual"]


def xml_for(doc, r, rng):
    if doc["kind"] == "file":
        xml = doc["raw"]
    else:
        r = dict(r, prefix=actual_prefix(r, rng))
        xml = xdoc.render(doc["defn"], style=r["style"], prefix=r["prefix"], extra_ns=r["xsi"], comments=rng.random() < 0.5,
                          od=rng.random() < 0.5, base_first=rng.random() < 0.5).encode()
    if r["fault"] == "malformed":
        cut = rng.randint(len(xml) // 3, len(xml) - 20)
        xml = xml[:cut]
    elif r["fault"] == "unsupported":
        tag = b"ParameterTypeSet>"
        i = xml.find(tag)
        pre = b"xtce:" if (doc["kind"] == "file" and doc["style"] == "prefix") or (doc["kind"] == "gen" and r["style"] == "prefix" and r["prefix"] == "xtce") else \
            (r["prefix"].encode() + b":" if doc["kind"] == "gen" and r["style"] == "prefix" else b"")
        xml = xml[:i + len(tag)] + b"<" + pre + b'ArrayParameterType name="UNSUPPORTED_ARRAY"/>' + xml[i + len(tag):]
    elif r["fault"] == "latefail":
        # a container at the end of the ContainerSet that looks up its base container by name and then fails on an undefined
        # parameter: the load fails in the third pass, after by-name element lookups have been made
        pre = b"xtce:" if (doc["kind"] == "file" and doc["style"] == "prefix") else \
            (r["prefix"].encode() + b":" if doc["kind"] == "gen" and r["style"] == "prefix" else b"")
        base = doc["defn"]["root"].encode() if doc["kind"] == "gen" else b"CCSDSPacket"
        bad = (b"<" + pre + b'SequenceContainer name="ZZ_LATE_FAIL"><' + pre + b'EntryList><' + pre + b'ParameterRefEntry parameterRef="NO_SUCH_PARAMETER"/></'
               + pre + b"EntryList><" + pre + b'BaseContainer containerRef="' + base + b'"/></' + pre + b"SequenceContainer>")
        tag = b"</" + pre + b"ContainerSet>"
        i = xml.rfind(tag)
        if rng.random() < 0.5:
            xml = xml[:i] + bad + xml[i:]
        else:
            # ... or the failure sits inside one of the document's own containers (the last one): its name is a name valid documents use
            etag = b"</" + pre + b"EntryList>"
            j = xml.rfind(etag, 0, i)
            ref = b"<" + pre + b'ParameterRefEntry parameterRef="NO_SUCH_PARAMETER"/>'
            xml = (xml[:j] + ref + xml[j:]) if j > 0 else (xml[:i] + bad + xml[i:])
    return xml


def do_load(doc, r, rng):
    """one real load; returns (outcome, gp, gm, same, note)"""
    from space_packet_parser import common
    from space_packet_parser.xtce.definitions import XtcePacketDefinition
    actual = actual_prefix(r, rng) if doc["kind"] == "gen" else r["prefix"]
    xml = xml_for(doc, r, rng)
    arg = "bogus" if r["fault"] == "badprefix" else (None if r["fault"] == "noprefix" else (actual if r["style"] == "prefix" else None))
    note = ""
    try:
        kw = {"root_container_name": doc["defn"]["root"]} if doc["kind"] == "gen" else {}
        # every documented way of handing the document over: binary stream, path as str / Path, open file, the top-level load_xml
        how = rng.choice(["stream", "stream", "str", "path", "file", "load_xml"])
        if how == "load_xml" and not (doc["kind"] == "file" and arg == "xtce"):
            how = "str"
        if how == "stream":
            d = XtcePacketDefinition.from_xtce(io.BytesIO(xml), xtce_ns_prefix=arg, **kw)
        else:
            import pathlib
            import tempfile
            import space_packet_parser
            with tempfile.TemporaryDirectory(prefix="c16-") as td:
                fp = pathlib.Path(td) / "doc.xml"
                fp.write_bytes(xml)
                if how == "str":
                    d = XtcePacketDefinition.from_xtce(str(fp), xtce_ns_prefix=arg, **kw)
                elif how == "path":
                    d = XtcePacketDefinition.from_xtce(fp, xtce_ns_prefix=arg, **kw)
                elif how == "file":
                    with open(fp, "rb") as fh:
                        d = XtcePacketDefinition.from_xtce(fh, xtce_ns_prefix=arg, **kw)
                else:
                    d = space_packet_parser.load_xml(fp)
        outcome = "loaded"
    except Exception as e:  # noqa: BLE001
        outcome, d, note = "failed", None, f"{type(e).__name__}: {e}"[:160]
    E = common.NamespaceAwareElement
    back = lambda k: "foo" if k in SPELLINGS else k      # the model knows every spelling as "foo" (also one left by an earlier load)
    gp = back(E._ns_prefix) if E._ns_prefix is not None else NONE
    gm = sorted([[back(k) if k is not None else NONE, v] for k, v in dict(E._nsmap).items()])
    same = True
    if d is not None:
        p = project.project(d)
        if doc["kind"] == "gen":
            diffs = project.same_content(p, doc["normal"])
            cs, ps, ts = project.reachable(doc["defn"])
            miss = (cs - set(p["containers"])) | (ps - set(p["params"])) | (ts - set(p["types"]))
            same = not diffs and not miss
            note = "; ".join(diffs[:2]) + (" missing " + str(sorted(miss)[:3]) if miss else "")
            if actual != r["prefix"]:
                note += f" [prefix spelled {actual!r}]"
        else:
            if doc["baseline"] is None:
                doc["baseline"] = p
            same = p == doc["baseline"]
            note = "" if same else "projection differs from the first load of this file"
    return outcome, gp, gm, same, note


XTCE_URIS = {URI}


def model_gm(gm, doc):
    """map the real namespace map to the model's abstract URIs (any document's XTCE URI -> "xtce-uri")"""
    if doc["kind"] == "file":
        XTCE_URIS.add(doc["uri"])
    return sorted([k, "xtce-uri" if v in XTCE_URIS else "xsi-uri" if k == "xsi" else v] for k, v in gm)


def run(ctx):
    q = ctx.quick
    rng = ctx.rng
    ctx.rule = ("LoaderNs.tla: every history of <= 3 loads over 2 documents x {prefix xtce, prefix foo, default namespace, no namespace} x "
                "{with, without unrelated xsi declaration} x {well-formed, malformed XML, unsupported element, prefix not in the map} "
                "(TLC BFS; invariant LookupSeesOwnDoc, action properties HistoryIndependent, FaultsFail). A: an edge cover of the dumped "
                "graph (histories of <= 2 loads) replayed in one process with random comment / whitespace / default-omission placement; "
                "after every load the projection of the definition, the outcome and the class-level namespace state are compared. "
                "B: random histories of 12 loads incl. the bundled and mission documents, validated by Trace_LoaderNs. "
                "distinct = (history of requests).")
    ctx.assumptions = ["projection equality of a loaded definition with the canonical normal form is computed by the harness (project.py)",
                       "file documents are compared with their own first load (no independent reader for mission documents yet)"]
    r = ctx.tlc_expect_ok("LoaderNs", "LoaderNs.cfg", coverage=True, tag="histories<=3")
    ctx.require_actions(r, ["Start", "ParseFail", "ParseOk", "SetPrefix", "SetNsmap", "LookupsFail", "LookupsOk"])
    ctx.exhaustive = True
    docs = make_docs(ctx.seed + 11, 2)
    # ---- A: edge cover of histories of <= 2 loads
    cfg = os.path.join(ctx.work, "gen.cfg")
    with open(cfg, "w") as f:
        f.write("SPECIFICATION Spec\nCONSTANTS\n  Docs = {1, 2}\n  MaxLoads = 2\nINVARIANT LookupSeesOwnDoc\nCHECK_DEADLOCK FALSE\n")
    dump = os.path.join(ctx.work, "ns-graph")
    ctx.tlc_expect_ok("LoaderNs", cfg, dump=dump, count=False, tag="dump", workers=4)
    g = load_dot(dump + ".dot")
    paths, ncov = edge_cover(g, rng=rng, max_paths=(4000 if q else None))
    ctx.extra["graph"] = {"nodes": len(g.state_text), "edges": g.nedges, "edges_covered": ncov, "paths": len(paths)}
    os.unlink(dump + ".dot")
    from space_packet_parser import common
    for path in paths:
        # every model path starts in the initial state: a fresh process
        common.NamespaceAwareElement.set_ns_prefix(None)
        common.NamespaceAwareElement.set_nsmap({})
        hist = []
        prev = g.state(path[0])
        prob = None
        for a, n in path[1:]:
            st = g.state(n)
            if prev["phase"] == "idle" and st["phase"] == "parse":
                req = st["cur"]
                hist.append(dict(req))
            if st["phase"] == "idle" and prev["phase"] != "idle":
                # the real load for the request that just finished in the model
                req = hist[-1]
                outcome, gp, gm, same, note = do_load(docs[req["doc"]], req, rng)
                mgm = sorted([list(x) for x in st["gm"]["__set__"]]) if isinstance(st["gm"], dict) else []
                if outcome != st["last"]["k"]:
                    prob = f"load {len(hist)} ({req}) {outcome} ({note}); model: {st['last']['k']}"
                elif outcome == "loaded" and not same:
                    prob = f"load {len(hist)} ({req}): definition differs from the document: {note}"
                elif gp != st["gp"] or model_gm(gm, docs[req["doc"]]) != mgm:
                    prob = f"load {len(hist)} ({req}): namespace state {gp} {gm}; model {st['gp']} {mgm}"
                if prob:
                    break
            prev = st
        ctx.traces += 1
        ctx.count(("A", repr(hist)))
        if prob:
            ctx.violation("C16/replay/" + ("outcome" if "model:" in prob and "namespace" not in prob else "state-or-definition"), prob, {"history": hist})
        elif len(hist) == 2 and hist[0]["style"] != hist[1]["style"]:
            ctx.sample({"direction": "spec->code", "history": hist}, limit=2)
    # ---- B: random long histories incl. real documents
    alld = dict(make_docs(ctx.seed + 12, 4))
    alld.update(file_docs(5))
    ctx.extra["documents"] = {k: (v.get("path", "generated")) for k, v in alld.items()}
    recs = []
    for doc in alld.values():
        if doc["kind"] == "file":
            XTCE_URIS.add(doc["uri"])
    for t in range(6 if q else 60):
        common.NamespaceAwareElement.set_ns_prefix(None)
        common.NamespaceAwareElement.set_nsmap({})
        ev = []
        for _ in range(12):
            di = rng.choice(list(alld))
            doc = alld[di]
            if doc["kind"] == "file":
                req = {"doc": di, "style": doc["style"], "prefix": doc["prefix"], "xsi": any(k == "xsi" for k, _ in doc["extra"]),
                       "fault": rng.choice(["none", "none", "none", "badprefix", "malformed", "latefail", "noprefix"])}
            else:
                req = {"doc": di, "style": rng.choice(["prefix", "default", "none"]), "prefix": rng.choice(["xtce", "foo"]), "xsi": rng.random() < 0.5,
                       "fault": rng.choice(["none", "none", "none", "malformed", "unsupported", "badprefix", "latefail", "noprefix"])}
            outcome, gp, gm, same, note = do_load(doc, req, rng)
            ev.append({"req": req, "outcome": outcome, "gp": gp, "gm": model_gm(gm, doc), "same": same, "note": note})
        recs.append(ev)
    path = os.path.join(ctx.work, "ns-trace.ndjson")
    core.write_ndjson(path, [{"ev": [{k: e[k] for k in ("req", "outcome", "gp", "gm", "same")} for e in ev]} for ev in recs])
    rt = ctx.tlc_expect_ok("Trace_LoaderNs", "Trace_LoaderNs.cfg", workers=1, env={"TRACE_FILE": path}, tag="trace-histories")
    verd = {}
    for line in rt.printed:
        v = core.parse_printed(line)
        verd[v[1]] = v
    if len(verd) != len(recs):
        raise core.MachineryError(f"verdicts {len(verd)} != histories {len(recs)}")
    for i, ev in enumerate(recs, 1):
        ctx.traces += 1
        ctx.count(("B", repr([e["req"] for e in ev])))
        v = verd[i]
        if v[0] != "ACCEPT":
            e = ev[v[2] - 1]
            ctx.violation("C16/trace/" + ("definition" if e["outcome"] == "loaded" and not e["same"] else "outcome-or-state"),
                          f"load {v[2]} of history {i}: request {e['req']} -> {e['outcome']} gp={e['gp']} gm={e['gm']} same={e['same']} {e['note']}; "
                          f"model {v[3][:300]}", {"history": [x["req"] for x in ev[:v[2]]], "documents": {str(k): alld[k].get("path", "generated") for k in alld}})
    ctx.sample({"direction": "code->spec", "history": [dict(e["req"], outcome=e["outcome"]) for e in recs[0][:6]]}, limit=4)


def replay(ctx, obj):
    print("C16 replays by re-running with the same VERIF_SEED; failing history:", obj)
