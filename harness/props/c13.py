"""C13 - primary-header construction and header accessors are exact inverses."""
import json
import os

from harness import core, tables

META = {"title": "Primary-header construction and header accessors are exact inverses"}
KEYS = ("ver", "typ", "shf", "apid", "flags", "seq")


def create(packets, f, n, data=None):
    """Returns (ok, header bytes, accessor tuple, framed sizes, exception name)."""
    data = bytes(n) if data is None else data
    try:
        p = packets.create_ccsds_packet(data, version_number=f["ver"], type=f["typ"], secondary_header_flag=f["shf"],
                                        apid=f["apid"], sequence_flags=f["flags"], sequence_count=f["seq"])
    except ValueError:
        return False, [], [], [], "ValueError"
    acc = [p.version_number, p.type, p.secondary_header_flag, p.apid, p.sequence_flags, p.sequence_count, p.data_length]
    hv = list(p.header_values)
    if hv != acc:
        acc = [-7] * 7          # header_values disagrees with the individual accessors: force a mismatch
    if bytes(p[6:]) != data:
        return True, [-1] * 6, acc, [], None      # data not appended verbatim: force a layout mismatch
    rt = list(packets.ccsds_generator(bytes(p)))
    fr = [len(x) for x in rt]
    if rt and rt[0] != p:
        fr = [-1]
    elif len(p) < 400 or len(p) % 97 == 0:
        # "the framer re-frames it" whatever the source: also a file object read in small pieces
        import io
        rs = (1, 2, 3, 5, 7, 4096)[len(p) % 6] if len(p) < 400 else 4096
        if list(packets.ccsds_generator(io.BytesIO(bytes(p)), buffer_read_size_bytes=rs)) != rt:
            fr = [-2]
    return True, list(p[:6]), acc, fr, None


def run(ctx):
    from space_packet_parser import packets
    q = ctx.quick
    ctx.rule = ("TLC: all 2^16 values of each of the three header words (others fixed at non-zero mid values) and the boundary "
                "lattice {-1,min,mid,max,max+1}^6 x 9 data lengths incl. 0 and 65537; invariants RoundTrip, PackUnpack, "
                "NothingBuiltWhenInvalid. A: the boundary lattice exported by TLC and replayed on create_ccsds_packet + accessors "
                "+ re-framing (bytes source, and a file object read in pieces of 1..7 bytes). B: the real functions run on all 3 x 65536 word values, on random field vectors and on random "
                "framed packets; every call logged and re-evaluated by Trace_Header. distinct = distinct input tuples.")
    ctx.assumptions = ["accessors are cached properties: a fresh RawPacketData object is used per case"]
    r = ctx.tlc_expect_ok("MC_Header", "MC_Header.cfg", coverage=True, tag="all-words")
    ctx.require_actions(r, ["Create", "Access"])
    r2 = ctx.tlc_expect_ok("MC_Header", "MC_HeaderPairs.cfg", coverage=True, tag="boundary-lattice")
    ctx.require_actions(r2, ["Create", "Access", "Reject"])
    ctx.exhaustive = True
    # ---- A: lattice replay
    cfg = os.path.join(ctx.work, "gen.cfg")
    with open(cfg, "w") as f:
        f.write('SPECIFICATION MCSpec\nCONSTANTS\n  Mode = "pairs"\nINVARIANT Export\nCHECK_DEADLOCK FALSE\n')
    rg = ctx.tlc_expect_ok("MC_Header", cfg, workers=1, count=False, tag="export-lattice")
    rows = [json.loads(core.parse_printed(l)[1]) for l in rg.printed]
    if len(rows) < 70000:
        raise core.MachineryError(f"lattice export incomplete: {len(rows)}")
    step = 1 if not q else 8
    datacache = {}
    for i, row in enumerate(rows):
        if i % step and row["n"] > 1000:
            continue    # quick tier: one eighth of the large-data rows
        f, n = row["f"], row["n"]
        data = datacache.setdefault(n, bytes((j * 7 + 3) % 256 for j in range(max(n, 0))))
        ok, h, acc, fr, exc = create(packets, f, n, data)
        ctx.count(("A", tuple(f[k] for k in KEYS), n))
        ctx.traces += 1
        prob = None
        if ok != row["ok"]:
            prob = f"constructed={ok}, specification says valid={row['ok']}"
        elif ok and h != row["h"]:
            prob = f"header bytes {h} != specification {row['h']}"
        elif ok and acc != [f[k] for k in KEYS] + [n - 1]:
            prob = f"accessors {acc} != fields"
        elif ok and fr != [6 + n]:
            prob = f"re-framing yields sizes {fr}, expected one packet of {6 + n}"
        if prob:
            ctx.violation("C13/replay/" + ("validation" if ok != row["ok"] else "layout"), prob, {"f": f, "n": n})
        if ok and n > 2:
            ctx.sample({"direction": "spec->code", "fields": f, "data_len": n, "header": row["h"]}, limit=2)
    # ---- B: exhaustive words + random, logged and validated by TLC
    rng = ctx.rng
    lines = []
    base = {"ver": 5, "typ": 1, "shf": 0, "apid": 1365, "flags": 2, "seq": 10922}
    wstep = 1 if not q else 5
    off = rng.randrange(wstep)
    for w in range(off, 65536, wstep):
        f1 = dict(base, ver=w >> 13, typ=(w >> 12) & 1, shf=(w >> 11) & 1, apid=w & 2047)
        f2 = dict(base, flags=w >> 14, seq=w & 16383)
        for f, n in ((f1, 3), (f2, 3), (base, w + 1)):
            ok, h, acc, fr, exc = create(packets, f, n)
            lines.append({"kind": "create", "f": f, "n": n, "ok": ok, "h": h, "acc": acc, "fr": fr, "size": 0})
    for _ in range(3000 if q else 60000):
        f = {k: rng.randint(0, m) for k, m in zip(KEYS, (7, 1, 1, 2047, 3, 16383))}
        if rng.random() < 0.2:
            k = rng.choice(KEYS)
            f[k] = rng.choice([-1, {"ver": 8, "typ": 2, "shf": 2, "apid": 2048, "flags": 4, "seq": 16384}[k], 65536 + f[k], 2 ** 20, -65536,
                               (1 << rng.randint(12, 29)) + f[k]])
        n = rng.choice([1, 2, 17, 255, 256, 1000, 65535, 65536]) if rng.random() < 0.9 else rng.choice([0, 65537])
        ok, h, acc, fr, exc = create(packets, f, n)
        lines.append({"kind": "create", "f": f, "n": n, "ok": ok, "h": h, "acc": acc, "fr": fr, "size": 0})
    # arbitrary framed packets: accessors on whatever the framer yields
    stream = b""
    for _ in range(2000 if q else 30000):
        n = rng.choice([1, 2, 5, 40])
        stream += bytes([rng.getrandbits(8) for _ in range(4)]) + (n - 1).to_bytes(2, "big") + bytes(n)
    for p in packets.ccsds_generator(stream):
        acc = [p.version_number, p.type, p.secondary_header_flag, p.apid, p.sequence_flags, p.sequence_count, p.data_length]
        lines.append({"kind": "unpack", "f": base, "n": 0, "ok": True, "h": list(p[:6]), "acc": acc, "fr": [], "size": len(p)})
    for ln in lines:
        ctx.count(("B", ln["kind"], tuple(ln["f"][k] for k in KEYS), ln["n"], tuple(ln["h"])))
    rej = tables.validate_lines(ctx, "Trace_Header", lines, "calls", jobs=16)
    for idx, clause in rej.items():
        ln = lines[idx]
        ctx.violation(f"C13/trace/{ln['kind']}/{clause[0]}", f"logged call rejected by Trace_Header ({clause[0]}): "
                      f"{ {k: ln[k] for k in ('f', 'n', 'ok', 'h', 'acc', 'fr')} }", {"line": ln})
    ctx.sample({"direction": "code->spec", **{k: lines[7][k] for k in ("kind", "f", "n", "ok", "h", "acc", "fr")}}, limit=5)
    ctx.extra["B_lines"] = len(lines)


def replay(ctx, obj):
    from space_packet_parser import packets
    if "line" in obj:
        f, n = obj["line"]["f"], obj["line"]["n"]
    else:
        f, n = obj["f"], obj["n"]
    ok, h, acc, fr, exc = create(packets, f, n)
    line = {"kind": "create", "f": f, "n": n, "ok": ok, "h": h, "acc": acc, "fr": fr, "size": 0}
    rej = tables.validate_lines(ctx, "Trace_Header", [line], "replay", jobs=1)
    print(line, "rejected:", rej)
    for idx, clause in rej.items():
        ctx.violation(f"C13/trace/create/{clause[0]}", "replay rejected", obj)
