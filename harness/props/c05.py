"""C05 - container inheritance selects the unique matching structure, in order."""
import itertools

from harness import crit, xdoc
from harness.props import decode_common as dc

META = {"title": "Container inheritance selects the unique matching structure, in order"}


def uint(w):
    return xdoc.ptype_num("int", xdoc.numeric_enc("int", w))


def cmp(ref, op, n, cal=True):
    return {"k": "cmp", "ref": ref, "op": op, "cal": cal, "lit": crit.lit_num(False, n)}


CRITS = [("==", 0), ("==", 1), ("!=", 0), ("<", 2), (">=", 1)]


def forest_defns(ncont, widths, rng=None, sample=None, header_names=None):
    """All container forests on ncont containers (parent index < child index), every abstract-flag subset, one own parameter per
    container (width from `widths`), one reusable nested container N placed before / after / not at all in each non-root container,
    none, one or two restriction criteria per inheritance edge over parameters decoded by ancestors."""
    names = [f"C{i}" for i in range(ncont)]
    out = []
    parents_space = list(itertools.product(*[range(i) for i in range(1, ncont)]))
    for parents in parents_space:
        parent = (None,) + parents
        for abst in itertools.product((False, True), repeat=ncont):
            for nest in itertools.product((0, 1, 2), repeat=ncont - 1):       # 0: no nested ref, 1: before own param, 2: after
                if sum(1 for x in nest if x) > 2:
                    continue
                for ws in itertools.product(widths, repeat=ncont):
                    # criteria: for each child one criterion on its parent's own param, plus optionally one on the root's param
                    crit_choices = []
                    for i in range(1, ncont):
                        opts = []
                        for (op, n) in CRITS:
                            opts.append([cmp(f"P{parent[i]}", op, n)])
                        opts.append([cmp(f"P{parent[i]}", ">=", 1), cmp("P0", "!=", 1)])
                        opts.append([])        # a BaseContainer without RestrictionCriteria: the child inherits unconditionally
                        crit_choices.append(opts)
                    for cs in itertools.product(*crit_choices):
                        out.append((parent, abst, nest, ws, cs))
    if sample is not None and len(out) > sample:
        out = rng.sample(out, sample)
    defs = []
    for parent, abst, nest, ws, cs in out:
        d = xdoc.new_defn("C0")
        for i in range(ncont):
            xdoc.add_param(d, f"P{i}", uint(ws[i]))
        xdoc.add_param(d, "NP", uint(1))
        for i in range(ncont):
            entries = [("p", f"P{i}")]
            if i > 0 and nest[i - 1] == 1:
                entries = [("c", "N")] + entries
            elif i > 0 and nest[i - 1] == 2:
                entries = entries + [("c", "N")]
            xdoc.add_container(d, f"C{i}", entries, base=(f"C{parent[i]}" if i else ""), crit_list=(cs[i - 1] if i else ()), abstract=abst[i])
        if any(nest):
            xdoc.add_container(d, "N", [("p", "NP")], abstract=True)
        # decoding may start at any container (root_container_name override), not only at the top of the forest
        if ncont >= 3 and (len(defs) % 4) == 3:
            d["root"] = "C1"
        defs.append(d)
    return defs


def all_packets(nbits):
    """every value of the leading nbits; padded to 2 bytes (the unrecognized-packet report reads the APID from the raw header)"""
    nb = max(2, (nbits + 7) // 8)
    for v in range(1 << nbits):
        yield list((v << (8 * nb - nbits)).to_bytes(nb, "big"))


def max_bits(d):
    return sum(d["types"][t]["enc"]["w"] for t in d["torder"]) + 1


ROUTES = [("obj",), ("xml", "prefix", False, False), ("xml", "default", True, False, "rev"), ("xml", "none", False, True),
          ("xml", "prefix", True, True, "rev"), ("obj", "rev"), ("obj", "shared")]


def special_defns():
    """Hand-shaped structures the forests do not reach: a full CCSDS header root (header / user-data views), criteria on user
    data of a grandparent, boolean-expression criteria, a nested container reused by parent and child (repeated names),
    ambiguity at depth 2, a base without criteria."""
    out = []
    d = xdoc.new_defn("CCSDSPacket")
    for nm, w in (("VERSION", 3), ("TYPE", 1), ("SHF", 1), ("APIDX", 11), ("SEQF", 2), ("SEQC", 14), ("LEN", 16)):
        xdoc.add_param(d, nm, uint(w))
    for nm, w in (("SUB", 2), ("A", 3), ("B", 3), ("T", 1), ("Z", 8)):
        xdoc.add_param(d, nm, uint(w))
    xdoc.add_container(d, "CCSDSPacket", [("p", n) for n in ("VERSION", "TYPE", "SHF", "APIDX", "SEQF", "SEQC", "LEN")], abstract=True)
    xdoc.add_container(d, "SEC", [("p", "SUB")], base="CCSDSPacket", crit_list=[cmp("APIDX", "<", 4)], abstract=True)
    xdoc.add_container(d, "TAIL", [("p", "T")], abstract=True)
    xdoc.add_container(d, "PA", [("c", "TAIL"), ("p", "A")], base="SEC", crit_list=[cmp("SUB", "==", 0), cmp("APIDX", "==", 0)])
    xdoc.add_container(d, "PB", [("p", "B"), ("c", "TAIL")], base="SEC",
                       crit_list=[{"k": "or", "conds": [{"k": "cond", "l": "SUB", "lcal": True, "op": "==", "rk": "lit", "r": "", "rcal": False, "lit": crit.lit_num(False, 1)}],
                                   # a nested group: SUB == 1 or (APIDX >= 3 and VERSION <= 7)
                                   "groups": [{"k": "and", "conds": [
                                       {"k": "cond", "l": "APIDX", "lcal": True, "op": ">=", "rk": "lit", "r": "", "rcal": False, "lit": crit.lit_num(False, 3)},
                                       {"k": "cond", "l": "VERSION", "lcal": True, "op": "<=", "rk": "lit", "r": "", "rcal": False, "lit": crit.lit_num(False, 7)}],
                                       "groups": []}]}])
    xdoc.add_container(d, "PBB", [("c", "TAIL"), ("p", "Z")], base="PB", crit_list=[cmp("B", ">", 5)])
    # a sibling that overlaps PBB: below a container restricted by a nested boolean expression both may hold at once (ambiguity)
    xdoc.add_container(d, "PBC", [("p", "A")], base="PB", crit_list=[cmp("B", ">", 3)])
    xdoc.add_container(d, "PC", [("p", "Z")], base="SEC", crit_list=[cmp("SUB", ">=", 2)])
    xdoc.add_container(d, "PD", [("p", "A")], base="SEC", crit_list=[cmp("SUB", "==", 3), cmp("VERSION", "==", 0)])
    out.append(d)
    return out


def special_packets(rng, n):
    from harness import defs
    pk = []
    for _ in range(n):
        apid = rng.choice([0, 0, 1, 2, 3, 4, 5, 2047])
        body = bytes([rng.getrandbits(8) for _ in range(rng.choice([1, 2, 2, 3]))])
        pk.append(list(defs.mk_packet(body, apid=apid, flags=rng.randrange(4), seq=rng.randrange(16384), version=rng.choice([0, 0, 1]))))
    return pk


def run(ctx):
    q = ctx.quick
    rng = ctx.rng
    ctx.rule = ("Decode.tla (container walk state machine) run by TLC on every container forest of 2 containers and sampled forests of 3 and 4 x every "
                "abstract-flag subset x nested-container placements x parameter widths {1,2} x one or two overlapping restriction criteria "
                "per edge x ALL packets of the resulting length, with invariants CursorIsSum / PathOK / ChosenSatisfied at every step; "
                "plus hand-shaped structures (full header root, boolean criteria, reused nested container, ambiguity at depth 2) with "
                "random packets. Every case is decoded by the real parse_ccsds_packet on definitions built through constructors and "
                "through XML (3 spellings) and compared at the end of the walk (items, order, values, views, partial data, outcome). "
                "distinct = (definition, route, packet).")
    ctx.assumptions = ["the packet is a mapping: a name decoded twice keeps its first position and last value (DESIGN C05)",
                       "criteria whose operands are missing are 'undefined': any outcome accepted"]
    # definitions are processed in batches so that the harness never holds more than a few thousand definitions with their packets and
    # observations (the full 3-container space is 56 000 definitions x up to 128 packets: sampled in both tiers, all of it only for 2)
    st, ndefs, npk, keep = {}, 0, 0, []

    def flush(groups):
        nonlocal ndefs, npk
        if not groups:
            return
        ndefs += len(groups)
        npk += sum(len(g["pkts"]) for g in groups)
        for k_, v_ in dc.run_groups(ctx, "C05", groups, "walk").items():
            st[k_] = st.get(k_, 0) + v_
        if not keep:
            keep.append(groups[len(groups) // 2])
    for ncont, sample in ((2, None), (3, 700 if q else 9000), (4, 250 if q else 4000)):
        defs_ = forest_defns(ncont, (1, 2) if ncont < 4 else (1,), rng, sample)
        groups = []
        for i, d in enumerate(defs_):
            nb = max_bits(d)
            pk = list(all_packets(nb)) if nb <= 7 else [list(rng.getrandbits(8 * max(2, (nb + 7) // 8)).to_bytes(max(2, (nb + 7) // 8), "big")) for _ in range(96)]
            groups.append({"defn": d, "pkts": pk, "route": ROUTES[i % len(ROUTES)], "label": f"forest{ncont}"})
            if len(groups) >= 1500:
                flush(groups)
                groups = []
        flush(groups)
        del defs_
    groups = []
    for d in special_defns():
        for r in ROUTES:
            groups.append({"defn": d, "pkts": special_packets(rng, 300 if q else 3000), "route": r, "label": "special"})
    flush(groups)
    ctx.extra["definitions"] = ndefs
    ctx.extra["packets"] = npk
    ctx.extra["model_status_counts"] = st
    for need in ("ok", "unrec"):
        if not st.get(need):
            ctx.vacuity(f"no case ended with model status {need}")
    ctx.exhaustive = True
    g = keep[0]
    ctx.sample({"definition_containers": g["defn"]["containers"], "route": list(g["route"]), "packet": g["pkts"][3]}, limit=2)
    ctx.sample({"definition": "special CCSDS-header structure", "containers": list(groups[-1]["defn"]["containers"]),
                "packet": groups[-1]["pkts"][0]}, limit=3)


def replay(ctx, obj):
    dc.replay_case(ctx, obj, "C05")
