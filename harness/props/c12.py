"""C12 - segmented packets are reassembled per APID exactly once and only when complete."""
import json
import os
import warnings

from harness import core, defs

META = {"title": "Segmented packets are reassembled per APID exactly once and only when complete"}
FLAG = {"C": 0, "F": 1, "L": 2, "U": 3}
INVS = ["TypeOK", "OpenUnused", "OpenShape", "LastWellFormed"]
PROPS = ["NoReuseStep", "PerApidIndependent", "OnlyWhenComplete"]
ACTIONS = ["DoUnseg", "DoFirst", "DoDropNoStart", "DoAppend", "DoCloseOk", "DoCloseGap"]


def cfg(ctx, name, spec, maxlen, apids, seqs, invs, props=(), asis=False, init=None):
    path = os.path.join(ctx.work, name)
    with open(path, "w") as f:
        if init:
            f.write(f"INIT {init[0]}\nNEXT {init[1]}\n")
        else:
            f.write(f"SPECIFICATION {spec}\n")
        f.write("CONSTANTS\n  Apids = {%s}\n  Seqs = {%s}\n  AsIs = %s\n  MaxLen = %d\n" % (
            ", ".join(map(str, apids)), ", ".join(map(str, seqs)), "TRUE" if asis else "FALSE", maxlen))
        for i in invs:
            f.write(f"INVARIANT {i}\n")
        for p in props:
            f.write(f"PROPERTY {p}\n")
        f.write("CHECK_DEADLOCK FALSE\n")
    return path


MODES = ("default", "skipbad", "unrec-skip", "unrec-yield")
UNREC_APID = 200
_DEFS = {}


def definition_for(mode):
    key = "unrec" if mode.startswith("unrec") else "plain"
    if key not in _DEFS:
        _DEFS[key] = defs.header_definition_not_recognising(UNREC_APID) if key == "unrec" else defs.header_only_definition()
    return _DEFS[key]


def expected_outs(model_outs, hist, mode):
    """What the generator delivers of the reassembled outputs under the options of `mode` (every output is longer than the header-only
    definitions, i.e. length-mismatched; outputs of UNREC_APID are unrecognized under the 'unrec' definition). The reassembly itself
    (which groups close, which warnings are issued) does not depend on the options."""
    if mode == "skipbad":
        return []
    if mode == "unrec-skip":
        return [o for o in model_outs if hist[o[0] - 1][0] != UNREC_APID]
    return model_outs


def thin_set(hist, k, salt):
    """Indices (1-based) of CONTINUATION / LAST packets that carry no user data at all: a data field of exactly the k secondary-header
    bytes, or (k >= 2) shorter than that. They contribute nothing to a combined packet."""
    if k == 0:
        return {}
    return {i: (1 if k >= 2 and (i + salt) % 2 else k) for i, h in enumerate(hist, 1) if h[1] in (0, 2) and (i + salt) % 3 == 0}


def visible(ids_lists, thin):
    return [[i for i in ids if i not in thin] for ids in ids_lists]


def run_history(d, hist, k, mode="default", thin=None):
    """Feed the raw packet history to the real generator. Returns (outs as id lists, warning kinds, problems).
    thin: {index: data length} for later segments without user data (they leave no trace in a combined packet)."""
    thin = thin or {}
    from space_packet_parser.exceptions import UnrecognizedPacketTypeError
    kw = {"skipbad": {"parse_bad_pkts": False}, "unrec-skip": {}, "unrec-yield": {"yield_unrecognized_packet_errors": True}}.get(mode, {})
    stream = b""
    pk = []
    for i, (apid, flag, seq) in enumerate(hist, 1):
        # k secondary-header bytes 0xEE, then a 3-byte payload that identifies raw packet i
        data = bytes([0xEE] * k) + bytes([0xD0, i >> 8, i & 0xFF])
        if i in thin:
            data = bytes([0xEE] * thin[i])
        p = defs.mk_packet(data, apid=apid, flags=flag, seq=seq)
        pk.append(p)
        stream += p
    outs = []
    problems = []
    with warnings.catch_warnings(record=True) as w:
        warnings.simplefilter("always")
        try:
            items = []
            gen = d.packet_generator(stream, combine_segmented_packets=True, secondary_header_bytes=k, **kw)
            for it in gen:
                items.append(it)
                if len(items) > len(hist) + 2:
                    problems.append("more items than raw packets")
                    break
        except Exception as e:  # noqa: BLE001
            problems.append(f"exception {type(e).__name__}: {e}")
    for it in items:
        if isinstance(it, UnrecognizedPacketTypeError):
            if mode != "unrec-yield" or it.partial_data is None:
                problems.append("unexpected error object")
                continue
            it = it.partial_data
            if ((bytes(it.raw_data)[0] & 7) << 8 | bytes(it.raw_data)[1]) != UNREC_APID:
                problems.append("a recognizable output was reported as unrecognized")
        elif mode.startswith("unrec") and ((bytes(it.raw_data)[0] & 7) << 8 | bytes(it.raw_data)[1]) == UNREC_APID:
            problems.append("an output of the unrecognized APID was delivered as parsed")
        raw = bytes(it.raw_data)
        # identify contributors: the whole first packet, then for each later one its data minus k bytes
        ids = []
        first = None
        for i, p in enumerate(pk, 1):
            if raw.startswith(p):
                first = i
                if first is not None and (len(ids) == 0):
                    pass
        # decode by walking: first packet whole, then 3-byte payloads
        if len(raw) < 6 + k + 3:
            problems.append("short item")
            continue
        n0 = 6 + k + 3
        head, rest = raw[:n0], raw[n0:]
        if head[6:6 + k] != bytes([0xEE] * k) or head[6 + k] != 0xD0:
            problems.append("first segment malformed in output")
            continue
        i0 = head[6 + k + 1] * 256 + head[6 + k + 2]
        if not (1 <= i0 <= len(pk)) or pk[i0 - 1] != head:
            problems.append("first segment is not a whole raw packet")
            continue
        ids = [i0]
        ok = len(rest) % 3 == 0
        for j in range(0, len(rest) - len(rest) % 3, 3):
            if rest[j] != 0xD0:
                ok = False
                break
            ids.append(rest[j + 1] * 256 + rest[j + 2])
        if not ok:
            problems.append(f"later segments not stripped of header/secondary header correctly: {rest.hex()}")
            continue
        outs.append(ids)
    k = core.warning_kinds(w)
    k["parsed_items"] = sum(1 for it in items if not isinstance(it, UnrecognizedPacketTypeError))
    return outs, k, problems


def run(ctx):
    q = ctx.quick
    ctx.rule = ("TLC: every history of length <= MaxLen over 2 APIDs x 4 sequence flags x sequence counts {16382,16383,0,1} "
                "(real 14-bit values around the wrap), invariants OpenUnused/OpenShape/LastWellFormed and action properties "
                "NoReuseStep/PerApidIndependent/OnlyWhenComplete. A: every history of length 3 (BFS export) and simulated "
                "histories of depth 12 replayed through packet_generator(combine_segmented_packets=True, secondary_header_bytes=k), "
                "outputs identified by payload bytes; half of the histories run under other options (parse_bad_pkts=False; a definition "
                "that does not recognise one APID, with and without error reporting), which change what is delivered but not the reassembly. B: random long histories run on the real generator and validated by "
                "Trace_Segments. distinct = distinct (history, k).")
    ctx.assumptions = ["raw packets are identified in outputs by unique payload bytes placed by the harness",
                       "warnings are counted per history (gap / no-start), not attributed to individual packets"]
    apids, seqs = [100, 200], [16382, 16383, 0, 1]
    r = ctx.tlc_expect_ok("Segments", cfg(ctx, "mc.cfg", "Spec", 5 if q else 6, apids, seqs, INVS, PROPS),
                          coverage=True, tag="histories")
    ctx.require_actions(r, ACTIONS)
    ctx.extra["action_counts"] = {k: v[1] for k, v in r.actions.items() if k in ACTIONS}
    ra = ctx.tlc("Segments", cfg(ctx, "asis.cfg", "Spec", 5, apids, seqs, ["OpenUnused"], asis=True), workers=2,
                 count=False, tag="as-is")
    if ra.violated != "OpenUnused":
        raise core.MachineryError("as-is Segments model no longer violates OpenUnused")
    ctx.extra["asis_model_violates"] = ra.violated
    ctx.exhaustive = True
    if not q:
        # histories of ANY length: the invariants (strengthened by OpenDisjoint / Fresh / OpenAscending) are inductive (Apalache)
        ctx.tlc_expect_ok("Refine_Segments", "Refine_Segments.cfg", tag="Ind_Segments refines Segments", count=False)
        ctx.apalache_expect_ok("Ind_Segments.tla", "Init", "IndInv", 0, tag="base case")
        ctx.apalache_expect_ok("Ind_Segments.tla", "IndInit", "IndInvAndStep", 1, tag="inductive step from an arbitrary state")

    d = defs.header_only_definition()
    # ---- A: spec -> code
    cases = []
    rg = ctx.tlc_expect_ok("Gen_Segments", cfg(ctx, "gen3.cfg", None, 3, apids, seqs, ["Export"], init=("GenInit", "GenNext")),
                           workers=1, count=False, tag="export-all-len3")
    cases += [json.loads(core.parse_printed(l)[1]) for l in rg.printed]
    nsim = 1500 if q else 20000
    rs = ctx.tlc_expect_ok("Gen_Segments", cfg(ctx, "gensim.cfg", None, 12, apids + [300], seqs + [2, 3], ["Export"],
                                               init=("GenInit", "GenNext")),
                           workers=1, simulate=f"num={nsim}", depth=14, count=False, tag="simulate-depth12",
                           extra=["-seed", str(ctx.seed + 1)])
    cases += [json.loads(core.parse_printed(l)[1]) for l in rs.printed]
    ctx.extra["A_histories"] = len(cases)
    if len(cases) < 32768:
        raise core.MachineryError(f"expected all 32768 histories of length 3, got {len(cases)}")
    multi = 0
    for ci, c in enumerate(cases):
        hist = [(h[0], FLAG[h[1]], h[2]) for h in c["h"]]
        k = (0, 2, 5)[ci % 3]
        # the options decide what is delivered, never how groups are collected and closed
        mode = MODES[(ci // 3) % 4] if ci % 2 else "default"
        thin = thin_set(hist, k, ci) if ci % 4 == 1 else {}
        outs, wk, problems = run_history(definition_for(mode), hist, k, mode, thin)
        if thin:
            ctx.tally("A_histories_with_segments_without_user_data")
            c = dict(c, o=visible(c["o"], thin))
        ctx.count(("A", k, tuple(hist), mode, tuple(sorted(thin))))
        ctx.tally("A_mode_" + mode)
        # every reassembled output that is recognised is longer than the header-only definition: one length-mismatch warning each
        nmm = len(c["o"]) if mode in ("default", "skipbad") else sum(1 for o in c["o"] if hist[o[0] - 1][0] != UNREC_APID)
        c = dict(c, o=expected_outs(c["o"], hist, mode))
        ctx.traces += 1
        if any(len(o) > 1 for o in c["o"]):
            multi += 1
            ctx.sample({"direction": "spec->code", "history": hist, "k": k, "model_outputs": c["o"]}, limit=3)
        prob = None
        if problems:
            prob = "; ".join(problems)
        elif outs != c["o"]:
            prob = f"outputs {outs} != model {c['o']}"
        elif not core.warnings_agree(wk, {"gap": c["g"], "nostart": c["s"], "mismatch": nmm}):
            prob = f"warnings {wk} != model gap/nostart/length-mismatch {(c['g'], c['s'], nmm)}"
        if prob:
            kind = "reuse" if any(len(set(x)) != len(x) for x in outs) or len({i for o in outs for i in o}) != sum(len(o) for o in outs) else "mismatch"
            ctx.violation(f"C12/replay/{kind}" + ("" if mode == "default" else "/" + mode), prob + ("" if mode == "default" else f" [options: {mode}]"),
                          {"history": hist, "k": k, "model": c, "mode": mode, "thin": {str(a): b for a, b in thin.items()}})
    ctx.extra["A_histories_with_multi_segment_output"] = multi
    if multi == 0:
        ctx.vacuity("no replayed history produced a combined output")

    # ---- B: code -> spec
    rng = ctx.rng
    recs = []
    allap = [5, 100, 200, 300, 2047, 0]
    for t in range(60 if q else 600):
        n = rng.randint(5, 60 if q else 400)
        hist = []
        seqc = {a: rng.choice([0, 16370, 16383, 77]) for a in allap}
        nap = rng.randint(1, len(allap))
        for _ in range(n):
            a = rng.choice(allap[:nap])
            r_ = rng.random()
            fl = 3 if r_ < 0.15 else (1 if r_ < 0.40 else (0 if r_ < 0.75 else 2))
            if rng.random() < 0.08:
                seqc[a] = (seqc[a] + rng.choice([2, 5, 16383])) % 16384     # gap / repeat
            hist.append((a, fl, seqc[a]))
            seqc[a] = (seqc[a] + 1) % 16384
        k = rng.choice([0, 0, 1, 4])
        mode = "unrec-yield" if t % 3 == 2 else "default"       # both deliver every output, in order
        outs, wk, problems = run_history(definition_for(mode), hist, k, mode)
        # each parsed (recognised) output carries one length-mismatch warning; what is left over are the drop warnings
        other = wk["other"] - (wk["parsed_items"] - wk["mismatch"])
        if wk["mismatch"] > wk["parsed_items"] or other < 0:
            problems.append(f"length-mismatch warnings {wk} for {wk['parsed_items']} parsed outputs")
            other = 0
        if problems:
            ctx.violation("C12/trace/decode", "; ".join(problems), {"history": hist, "k": k, "mode": mode})
        recs.append({"tid": t + 1, "pk": [list(h) for h in hist], "outs": outs, "gaps": wk["gap"], "nostarts": wk["nostart"], "other": other,
                     "k": k, "mode": mode})
    path = os.path.join(ctx.work, "seg-trace.ndjson")
    core.write_ndjson(path, recs)
    tcfg = cfg(ctx, "trace.cfg", None, 100000, allap, [0], ["TraceInv"], init=("TraceInit", "TraceNext"))
    rt = ctx.tlc_expect_ok("Trace_Segments", tcfg, workers=1, env={"TRACE_FILE": path}, tag="trace-random")
    verd = {}
    for l in rt.printed:
        v = core.parse_printed(l)
        verd[v[1]] = v
    if len(verd) != len(recs):
        raise core.MachineryError(f"verdicts {len(verd)} != traces {len(recs)}")
    for rec in recs:
        v = verd[rec["tid"]]
        ctx.traces += 1
        ctx.count(("B", rec["k"], tuple(map(tuple, rec["pk"]))))
        if v[0] != "ACCEPT":
            ctx.violation(f"C12/trace/{v[2]}", f"trace rejected ({v[2]}): real outs {rec['outs'][:6]}.. gaps {rec['gaps']} "
                          f"nostarts {rec['nostarts']} (unrecognised wording: {rec['other']}); model {v[3][:300]}", {"history": rec["pk"], "k": rec["k"], "mode": rec["mode"]})
    ctx.sample({"direction": "code->spec", "packets": len(recs[0]["pk"]), "first_packets": recs[0]["pk"][:8],
                "outs": recs[0]["outs"][:5]}, limit=5)


def replay(ctx, obj):
    mode = obj.get("mode", "default")
    d = definition_for(mode)
    hist = [tuple(h) for h in obj["history"]]
    outs, wk, problems = run_history(d, hist, obj.get("k", 0), mode, {int(a): b for a, b in obj.get("thin", {}).items()})
    ngap, nno = wk["gap"], wk["nostart"]
    if "model" in obj and (problems or outs != obj["model"]["o"] or wk["gap"] > obj["model"]["g"] or wk["nostart"] > obj["model"]["s"]
                           or (wk["other"] == 0 and (ngap, nno) != (obj["model"]["g"], obj["model"]["s"]))):
        ctx.violation("C12/replay/mismatch", f"outputs {outs} warnings {wk} problems {problems}; expected {obj['model']}", obj)
    if mode in ("skipbad", "unrec-skip"):
        print("outputs:", outs, "warnings:", wk, "problems:", problems)
        return
    print("outputs:", outs, "gaps:", ngap, "nostarts:", nno, "problems:", problems)
    path = os.path.join(ctx.work, "seg-replay.ndjson")
    core.write_ndjson(path, [{"tid": 1, "pk": [list(h) for h in hist], "outs": outs, "gaps": ngap, "nostarts": nno, "other": 0, "k": 0}])
    apids = sorted({h[0] for h in hist})
    tcfg = cfg(ctx, "trace.cfg", None, 100000, apids, [0], ["TraceInv"], init=("TraceInit", "TraceNext"))
    rt = ctx.tlc_expect_ok("Trace_Segments", tcfg, workers=1, env={"TRACE_FILE": path})
    for l in rt.printed:
        print(l[:400])
        v = core.parse_printed(l)
        if v[0] != "ACCEPT":
            ctx.violation(f"C12/trace/{v[2]}", l[:300], obj)
