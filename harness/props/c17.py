"""C17 - a loaded definition is a consistent object graph; broken documents fail at load."""
import io
import itertools
import json
import os
from concurrent.futures import ThreadPoolExecutor

from harness import core

META = {"title": "A loaded definition is a consistent object graph; broken documents fail at load"}
NAMES = ["A", "B", "C", "D"]


def render(doc):
    s = '<?xml version="1.0"?><xtce:SpaceSystem xmlns:xtce="http://www.omg.org/space/xtce" name="S"><xtce:TelemetryMetaData><xtce:ParameterTypeSet>'
    for t in doc["types"]:
        s += f'<xtce:IntegerParameterType name="{t}"><xtce:IntegerDataEncoding sizeInBits="8" encoding="unsigned"/></xtce:IntegerParameterType>'
    s += "</xtce:ParameterTypeSet><xtce:ParameterSet>"
    for p in doc["params"]:
        s += f'<xtce:Parameter name="{p["name"]}" parameterTypeRef="{p["type"]}"/>'
    s += "</xtce:ParameterSet><xtce:ContainerSet>"
    for c in doc["conts"]:
        s += f'<xtce:SequenceContainer name="{c["name"]}" shortDescription="v{c["variant"]}"><xtce:EntryList>'
        for k, n in c["entries"]:
            s += f'<xtce:ParameterRefEntry parameterRef="{n}"/>' if k == "p" else f'<xtce:ContainerRefEntry containerRef="{n}"/>'
        s += "</xtce:EntryList>"
        if c["base"]:
            s += (f'<xtce:BaseContainer containerRef="{c["base"]}"><xtce:RestrictionCriteria><xtce:Comparison parameterRef="P1" value="{c["variant"] + 1}"/>'
                  "</xtce:RestrictionCriteria></xtce:BaseContainer>")
        s += "</xtce:SequenceContainer>"
    return s + "</xtce:ContainerSet></xtce:TelemetryMetaData></xtce:SpaceSystem>"


def observe(doc):
    from space_packet_parser.xtce import containers as CT
    from space_packet_parser.xtce.definitions import XtcePacketDefinition
    try:
        d = XtcePacketDefinition.from_xtce(io.BytesIO(render(doc).encode()), root_container_name=doc["conts"][0]["name"] if doc["conts"] else None)
    except BaseException as e:  # noqa: BLE001 - RecursionError is how cycles are rejected
        if isinstance(e, (KeyboardInterrupt, SystemExit)):
            raise
        return {"outcome": "rejected", "inheritors": [], "identity": True, "entries": [], "note": f"{type(e).__name__}: {e}"[:120]}
    ident = True
    entries = []
    for n, c in d.containers.items():
        if c.name != n:
            ident = False
        ents = []
        for e in c.entry_list:
            if not hasattr(e, "name"):
                ents.append(["?", repr(e)[:20]])          # an entry that is neither a parameter nor a container (e.g. None)
                ident = False
            elif isinstance(e, CT.SequenceContainer):
                ents.append(["c", e.name])
                if d.containers.get(e.name) is not e:
                    ident = False
            else:
                ents.append(["p", e.name])
                if d.parameters.get(e.name) is not e or d.parameter_types.get(e.parameter_type.name) is not e.parameter_type:
                    ident = False
        entries.append([n, ents])
    inheritors = [[n, list(c.inheritors)] for n, c in d.containers.items()]
    return {"outcome": "accepted", "inheritors": inheritors, "identity": ident, "entries": entries, "note": ""}


def acyclic(conts):
    g = {c["name"]: ([c["base"]] if c["base"] else []) + [n for k, n in c["entries"] if k == "c"] for c in conts}
    state = {}

    def visit(n):
        if state.get(n) == 1:
            return False
        if state.get(n) == 2 or n not in g:
            return True
        state[n] = 1
        ok = all(visit(m) for m in g[n])
        state[n] = 2
        return ok
    return all(visit(n) for n in g)


def base_docs(n):
    names = NAMES[:n]
    types = ["T1", "T2"]
    params = [{"name": "P1", "type": "T1"}, {"name": "P2", "type": "T2"}, {"name": "P3", "type": "T1"}]
    out = []
    choices = []
    for i, nm in enumerate(names):
        others = [x for x in names if x != nm]
        opts = []
        for base in [""] + others:
            for nest in [None] + others:
                for ppos in (0, 1):
                    ents = [["p", f"P{i % 3 + 1}"]]
                    if nest:
                        ents = ([["c", nest]] + ents) if ppos == 0 else (ents + [["c", nest]])
                    elif ppos == 1:
                        continue
                    opts.append({"name": nm, "base": base, "entries": ents, "variant": 0})
        choices.append(opts)
    for combo in itertools.product(*choices):
        conts = [dict(c) for c in combo]
        if acyclic(conts):
            out.append({"types": types, "params": params, "conts": conts})
    return out


def corruptions(doc, rng):
    """single-point corruptions of a well-formed document: (label, doc)"""
    out = []
    cs = doc["conts"]

    def clone():
        return json.loads(json.dumps(doc))
    # renamed references
    d = clone(); d["params"][0]["type"] = "NOPE"; out.append(("dangling-type", d))
    # names are whole names: a reference that merely ends in (or starts with) an existing name denotes nothing
    d = clone(); d["params"][0]["type"] = "NOPE/" + d["params"][0]["type"]; out.append(("dangling-type-path-like", d))
    d = clone(); d["params"][1]["type"] = d["params"][1]["type"] + " "; out.append(("dangling-type-trailing-blank", d))
    for j, c in enumerate(cs):
        for k, (kind, n) in enumerate(c["entries"]):
            d = clone(); d["conts"][j]["entries"][k][1] = "NOPE"; out.append((f"dangling-{'param' if kind == 'p' else 'nested'}", d))
        if c["base"]:
            d = clone(); d["conts"][j]["base"] = "NOPE"; out.append(("dangling-base", d))
            d = clone(); d["conts"][j]["base"] = "NOPE/" + c["base"]; out.append(("dangling-base-path-like", d))
    # duplicates
    d = clone(); d["types"].append("T1"); out.append(("dup-type", d))
    d = clone(); d["params"].append({"name": "P2", "type": "T1"}); out.append(("dup-param", d))
    d = clone(); d["params"].insert(rng.randint(0, 3), dict(d["params"][1])); out.append(("dup-param-verbatim", d))
    j = rng.randrange(len(cs))
    d = clone(); d["conts"].insert(rng.randint(0, len(cs)), dict(clone()["conts"][j])); out.append(("dup-container-identical", d))
    d = clone(); x = dict(clone()["conts"][j]); x["variant"] = 1; d["conts"].insert(rng.randint(0, len(cs)), x); out.append(("dup-container-conflicting", d))
    d = clone(); x = dict(clone()["conts"][j]); x["entries"] = x["entries"] + [["p", "P3"]]; d["conts"].append(x); out.append(("dup-container-conflicting-entries", d))
    # deletions
    d = clone(); d["types"].remove("T2"); out.append(("deleted-type", d))
    d = clone(); del d["params"][0]; out.append(("deleted-param", d))
    d = clone(); del d["conts"][j]; out.append(("deleted-container", d))
    # cycles
    a, b = cs[0]["name"], cs[-1]["name"]
    d = clone(); d["conts"][0]["base"] = b; d["conts"][-1]["base"] = a; out.append(("base-cycle", d))
    d = clone(); d["conts"][0]["entries"].append(["c", b]); d["conts"][-1]["entries"].append(["c", a]); out.append(("nesting-cycle", d))
    d = clone(); d["conts"][0]["entries"].append(["c", a]); out.append(("self-nesting", d))
    d = clone(); d["conts"][0]["base"] = a; out.append(("self-base", d))
    d = clone(); d["conts"][0]["base"] = b; d["conts"][-1]["entries"].append(["c", a]); out.append(("mixed-cycle", d))
    return out


def run(ctx):
    q = ctx.quick
    rng = ctx.rng
    ctx.rule = ("LoaderRes.tla (three-pass loader with the recursive container descent as an explicit stack and allocation-indexed objects) "
                "run by TLC on every acyclic base/nesting structure over 2 and 3 containers (4: sampled) in several document orders, and on "
                "every single-point corruption of each (renamed type / parameter / nested / base reference, duplicated type / parameter / "
                "container identical or conflicting, deleted definition, base / nesting / self / mixed cycle), with invariants "
                "ReferencesShareIdentity, InheritorsExact, BrokenRejected at every state. Every document is rendered and loaded by the real "
                "from_xtce; outcome, entry lists, `is`-identity of every reference and inheritor lists are compared. distinct = documents.")
    ctx.assumptions = ["any exception from from_xtce (incl. RecursionError for cycles) counts as rejection",
                       "references made from criteria and length specifications are outside this claim (resolved at decode time)"]
    docs = []
    for n, cap in ((2, None), (3, 250 if q else 2500), (4, 60 if q else 1500)):
        b = base_docs(n)
        if cap and len(b) > cap:
            b = rng.sample(b, cap)
        for d0 in b:
            orders = [list(range(len(d0["conts"])))]
            if len(d0["conts"]) > 1:
                orders.append(list(reversed(orders[0])))
                if not q:
                    p = orders[0][:]
                    rng.shuffle(p)
                    orders.append(p)
            for o in orders:
                d = dict(d0, conts=[d0["conts"][j] for j in o])
                docs.append(("well-formed", d))
                cors = corruptions(d, rng)
                if q:
                    cors = rng.sample(cors, 6)
                docs += cors
    ctx.extra["documents"] = len(docs)
    import sys
    sys.setrecursionlimit(400)
    lines = []
    for label, d in docs:
        o = observe(d)
        lines.append({"doc": d, "obs": {k: o[k] for k in ("outcome", "inheritors", "identity", "entries")}, "label": label, "note": o["note"]})
    sys.setrecursionlimit(1000)
    jobs = 16
    per = (len(lines) + jobs - 1) // jobs
    parts = [(i, lines[i:i + per]) for i in range(0, len(lines), per)]

    def one(a):
        off, part = a
        path = os.path.join(ctx.work, f"res-{off}.ndjson")
        core.write_ndjson(path, [{"doc": ln["doc"], "obs": ln["obs"]} for ln in part])
        r = ctx.tlc("Trace_LoaderRes", "Trace_LoaderRes.cfg", workers=1, env={"TRACE_FILE": path}, tag=f"docs@{off}", heap="3g")
        os.unlink(path)
        return off, part, r
    with ThreadPoolExecutor(max_workers=jobs) as ex:
        results = list(ex.map(one, parts))
    tall = {}
    for off, part, r in results:
        if not r.ok():
            raise core.MachineryError(f"Trace_LoaderRes failed: {r.violated or r.error}\n" + "\n".join(r.stdout.splitlines()[-30:]))
        seen = 0
        for line in r.printed:
            v = core.parse_printed(line)
            if v[0] not in ("ACCEPT", "REJECT"):
                continue
            seen += 1
            ln = part[v[1] - 1]
            ctx.traces += 1
            ctx.count(json.dumps(ln["doc"], sort_keys=True))
            key = f"{ln['label']}:{v[3]}"
            tall[key] = tall.get(key, 0) + 1
            if v[0] == "REJECT":
                ctx.violation(f"C17/{v[2]}/{ln['label']}", f"{v[2]}: model {v[3]} ({v[4]}); real {ln['obs']['outcome']} {ln['note']} identity={ln['obs']['identity']} "
                              f"inheritors={ln['obs']['inheritors']}", {"doc": ln["doc"], "label": ln["label"]})
        if seen != len(part):
            got = set()
            for line in r.printed:
                v = core.parse_printed(line)
                got.add(v[1])
            missing = [j + 1 for j in range(len(part)) if j + 1 not in got]
            raise core.MachineryError(f"verdicts {seen} != documents {len(part)}; first missing: {part[missing[0] - 1]['label']} "
                                      f"{json.dumps(part[missing[0] - 1]['doc'])}")
    ctx.extra["model_outcome_by_label"] = tall
    ctx.exhaustive = not q
    ctx.sample({"label": lines[0]["label"], "doc": lines[0]["doc"], "real": lines[0]["obs"]}, limit=1)
    for ln in lines:
        if ln["label"] == "mixed-cycle":
            ctx.sample({"label": ln["label"], "doc": ln["doc"], "real": ln["obs"]["outcome"], "note": ln["note"]}, limit=3)
            break


def replay(ctx, obj):
    o = observe(obj["doc"])
    print("real:", o)
    path = os.path.join(ctx.work, "res-replay.ndjson")
    core.write_ndjson(path, [{"doc": obj["doc"], "obs": {k: o[k] for k in ("outcome", "inheritors", "identity", "entries")}}])
    r = ctx.tlc("Trace_LoaderRes", "Trace_LoaderRes.cfg", workers=1, env={"TRACE_FILE": path})
    for line in r.printed:
        print(line[:300])
        v = core.parse_printed(line)
        if v[0] == "REJECT":
            ctx.violation(f"C17/{v[2]}/replay", line[:300], obj)
