"""C07 - string and binary fields, including computed lengths, decode as documented."""
import itertools
import json

from harness import crit, strbin, tables

META = {"title": "String and binary fields, including computed lengths, decode as documented"}
WHOLE = {"k": "whole", "tc": [], "tag": 0, "unit": 1}


def term(tc, unit=1):
    return {"k": "term", "tc": list(tc), "tag": 0, "unit": unit}


def lead(tag):
    return {"k": "lead", "tc": [], "tag": tag, "unit": 1}


def fixed(n):
    return {"k": "fixed", "n": n}


def dyn(ref, cal, slope=None, icpt=0):
    return {"k": "dyn", "ref": ref, "cal": cal, "adj": slope is not None, "slope": slope or 0, "icpt": icpt}


def cmp(ref, op, n, cal=True):
    return {"k": "cmp", "ref": ref, "op": op, "cal": cal, "lit": crit.lit_num(n < 0, abs(n))}


def lookup(entries):
    return {"k": "lookup", "entries": [{"items": it, "val": v} for it, v in entries]}


def binenc(ls):
    return {"k": "bin", "len": ls, "delim": WHOLE, "codec": ""}


def strenc(ls, delim=WHOLE, codec="UTF-8"):
    return {"k": "str", "len": ls, "delim": delim, "codec": codec}


def env_len(raw, calnum=None, den=1):
    v = crit.tv_int(raw) if calnum is None else crit.tv_flt(calnum, den)
    return [{"name": "LEN", "v": v, "r": crit.tv_int(raw)}, {"name": "MODE", "v": crit.tv_int(raw % 3), "r": crit.tv_int(raw % 3)}]


PK1 = list(b"\xa5Hello\x00World\x58\x00\xff\x10")
PK2 = list(b"\x00A\x00B\x00\x00C\x00\x00\x00\x3c\x81\x20\x58")


def case(enc, env, pkt, pos):
    return {"enc": enc, "env": env, "pkt": pkt, "pos": pos}


def enum_cases():
    for pkt in (PK1, PK2):
        for pos in range(8):
            for n in list(range(1, 26)) + [32, 40]:
                yield case(binenc(fixed(n)), [], pkt, pos)
            for n in (8, 12, 16, 20, 24, 40, 41):
                yield case(strenc(fixed(n)), [], pkt, pos)
                yield case(strenc(fixed(n), term([0])), [], pkt, pos)
                yield case(strenc(fixed(n), term([0x58])), [], pkt, pos)
                yield case(strenc(fixed(n), term([0, 0], 2), "UTF-16LE"), [], pkt, pos)
                yield case(strenc(fixed(n), term([0, 0x43], 2), "UTF-16BE"), [], pkt, pos)
        # referenced lengths: raw and calibrated, with and without adjustment (incl. zero slope / negative intercept)
        for raw in range(0, 6):
            for spec in (dyn("LEN", False, 8, 0), dyn("LEN", False, 8, -8), dyn("LEN", False, 1, 3), dyn("LEN", False),
                         dyn("LEN", True, 4, 4), dyn("LEN", True), dyn("LEN", False, 0, 16)):
                for env in (env_len(raw), env_len(raw, 2 * raw, 1), env_len(raw, 2 * raw + 1, 2)):
                    for pos in (0, 3, 8):
                        yield case(binenc(spec), env, pkt, pos)
                        yield case(strenc(spec), env, pkt, pos)
                        yield case(strenc(spec, term([0])), env, pkt, pos)
        # looked-up lengths (first match wins; no match is an error)
        for raw in range(0, 6):
            e1 = [([cmp("MODE", "==", 0)], 16), ([cmp("MODE", ">=", 1)], 24), ([cmp("LEN", "==", 2, False)], 8)]
            e2 = [([cmp("LEN", "==", 2, False)], 8), ([cmp("MODE", ">=", 1), cmp("LEN", "<", 3)], 24)]
            # a looked-up length of zero is a length like any other (an empty binary field), not "no match"
            e3 = [([cmp("MODE", "==", 0)], 0), ([cmp("MODE", "<=", 1)], 16), ([cmp("LEN", ">=", 0, False)], 8)]
            for pos in (0, 5):
                yield case(binenc(lookup(e3)), env_len(raw), pkt, pos)
                yield case(binenc(lookup(list(reversed(e3)))), env_len(raw), pkt, pos)
            for ent in (e1, e2, list(reversed(e1))):
                for pos in (0, 5):
                    yield case(binenc(lookup(ent)), env_len(raw), pkt, pos)
                    yield case(strenc(lookup(ent)), env_len(raw), pkt, pos)
                # the same type object first decodes a packet with another reference value: every ordered pair
                for before in range(0, 4):
                    yield dict(case(binenc(lookup(ent)), env_len(raw), pkt, 0), pre=[env_len(before)])
                    yield dict(case(strenc(lookup(ent)), env_len(raw), pkt, 0), pre=[env_len(before), env_len((before + 1) % 4)])
    # leading size tags: valid sizes, not a multiple of 8, larger than the buffer; unaligned tags
    for tag in (3, 8, 16):
        for size in (0, 8, 16, 24, 12, 64):
            if size >= (1 << tag):
                continue
            body = list(b"ABCDEFGH")
            bits = [int(c) for c in format(size, f"0{tag}b")] + [int(c) for by in body for c in format(by, "08b")]
            bits += [0] * ((-len(bits)) % 8)
            pk = [int("".join(map(str, bits[i:i + 8])), 2) for i in range(0, len(bits), 8)]
            for n in (tag + 16, tag + 24, tag + 29, 8 * len(pk)):
                for pos in (0,):
                    yield case(strenc(fixed(n), lead(tag)), [], pk, pos)
            for pos in (3, 7):
                sh = [0] * pos + bits
                sh += [0] * ((-len(sh)) % 8)
                pk2 = [int("".join(map(str, sh[i:i + 8])), 2) for i in range(0, len(sh), 8)]
                yield case(strenc(fixed(tag + 24), lead(tag)), [], pk2, pos)


REPERTOIRE = {"US-ASCII": "AZaz09 _-", "ISO-8859-1": "Aé\xa0ÿz", "Windows-1252": "A€œz", "UTF-8": "Aé€𝄞z\ufeff", "UTF-16LE": "Aé€zĀ\ufeff",
              "UTF-16BE": "Aé€zĀ\ufeff", "UTF-32LE": "Aé€𝄞\ufeff", "UTF-32BE": "Aé€𝄞\ufeff"}      # U+FEFF is a character of the text like any other
PYCODEC = {"US-ASCII": "ascii", "ISO-8859-1": "latin-1", "Windows-1252": "cp1252"}


def rand_case(rng):
    codec = rng.choice(list(strbin.CODEC))
    unit = strbin.CODEC[codec]
    pyc = PYCODEC.get(codec, codec)
    text = "".join(rng.choice(REPERTOIRE[codec]) for _ in range(rng.choice([0, 1, 3, 8, 40, rng.randint(0, 300)])))
    tb = text.encode(pyc)
    kind = rng.random()
    pos = rng.choice([0, 0, 8, 16, rng.randrange(8), rng.randrange(64)])
    pre = [rng.getrandbits(1) for _ in range(pos)]
    env = []
    if kind < 0.3:                                   # binary
        n = rng.choice([1, 7, 8, 9, 64, rng.randint(1, 2000)])
        field = [rng.getrandbits(1) for _ in range(n)]
        enc_len = n
        mk = binenc
        delim = WHOLE
    else:
        if kind < 0.5:
            body, delim = tb, WHOLE
        elif kind < 0.75:
            tcs = {1: rng.choice(["\x00", "X", "\n"]), 2: rng.choice(["\x00", "X"]), 4: "\x00"}[unit]
            tcb = tcs.encode(pyc)
            body = tb + tcb + bytes(rng.getrandbits(8) for _ in range(unit * rng.randint(0, 3)))
            delim = term(tcb, unit)
        else:
            tag = rng.choice([8, 16, 5, 12])
            if 8 * len(tb) >= (1 << tag):
                tb = tb[:((1 << tag) - 1) // 8 // unit * unit]
            tagbits = [int(c) for c in format(8 * len(tb), f"0{tag}b")]
            body = None
            delim = lead(tag)
        if body is not None:
            field = [int(c) for by in body for c in format(by, "08b")]
            if rng.random() < 0.2 and delim["k"] == "whole" and unit == 1 and codec != "UTF-8":
                field = field + [0] * rng.randint(1, 7)             # a buffer that is not a whole number of bytes
        else:
            field = tagbits + [int(c) for by in tb for c in format(by, "08b")] + [rng.getrandbits(1) for _ in range(rng.choice([0, 0, 3, 8]))]
        enc_len = len(field)
        if enc_len == 0:
            field = [0] * 8 * unit
            enc_len = len(field)
        mk = None
    post = [rng.getrandbits(1) for _ in range(rng.randint(0, 24))]
    allb = pre + field + post
    allb += [0] * ((-len(allb)) % 8)
    pkt = [int("".join(map(str, allb[i:i + 8])), 2) for i in range(0, len(allb), 8)]
    # how is the length specified?
    how = rng.random()
    if how < 0.4:
        ls = fixed(enc_len)
    elif how < 0.85:
        if enc_len % 8 == 0 and rng.random() < 0.6:
            ls = dyn("LEN", rng.random() < 0.5, 8, 0)
            ref = enc_len // 8
            if ref > 0 and rng.random() < 0.3:
                ls = dyn("LEN", ls["cal"], 8, -8)
                ref += 1
        else:
            k = rng.choice([0, 1, 5])
            ls = dyn("LEN", rng.random() < 0.5, 1, k) if k and enc_len >= k else dyn("LEN", rng.random() < 0.5)
            ref = enc_len - (k if ls["adj"] else 0)
        other = rng.randint(0, 4000)
        if ls["cal"]:
            env = [{"name": "LEN", "v": rng.choice([crit.tv_int(ref), crit.tv_flt(ref)]), "r": crit.tv_int(other)}]
        else:
            env = [{"name": "LEN", "v": crit.tv_flt(2 * other + 1, 2), "r": crit.tv_int(ref)}]
    else:
        mode = rng.randint(0, 3)
        env = [{"name": "MODE", "v": crit.tv_int(mode), "r": crit.tv_int(mode)}]
        ent = [([cmp("MODE", "==", m)], enc_len if m == mode else 8 * rng.randint(1, 9)) for m in rng.sample(range(4), rng.randint(1, 4))]
        ls = lookup(ent)
    enc = binenc(ls) if mk else strenc(ls, delim, codec)
    return case(enc, env, pkt, pos)


def run(ctx):
    q = ctx.quick
    ctx.rule = ("StrBin.tla evaluated by TLC on (A) the enumerated small space: binary and string fields of 1..41 bits at offsets 0..7 "
                "over two packets, whole / terminated (1- and 2-byte code units) / leading-size delimiting, fixed / referenced (raw and "
                "calibrated, with zero/negative adjustments) / looked-up lengths with reference values 0..5, and (B) random buffers up to "
                "2 kB in all supported character encodings. Each case is decoded by the real parse_value (constructors and XML, explicit / "
                "omitted defaults); Trace_StrBin compares raw buffer, text bytes (re-encoded), cursor advance and error outcome. "
                "One type object per (encoding, route) decodes all its cases in sequence (history independence). "
                "distinct = (encoding, environment, packet, offset, route).")
    ctx.assumptions = ["Python's codecs applied to the byte slice chosen by the specification are trusted; plain UTF-16/UTF-32 with a "
                       "byteOrder attribute are not generated", "zero-length strings, non-integral or negative computed lengths and reads "
                       "past the end of the packet are outside the claimed domain (C14 covers over-reads)"]
    cases = list(enum_cases())
    ctx.extra["A_cases"] = len(cases)
    rng = ctx.rng
    rcases = [rand_case(rng) for _ in range(2500 if q else 40000)]
    lines = []
    shared, hist = {}, {}
    for i, c in enumerate(cases + rcases):
        routes = [("ctor", False), ("xml", False), ("xml", True)]
        if q or i >= len(cases):
            routes = [routes[i % 3]]
        for via, od in routes:
            # one type object per (encoding, route) decodes all of its cases one after the other, as a loaded definition does for
            # the packets of a stream: what an earlier packet was must not matter
            if c.get("pre"):
                own = {}
                for env0 in c["pre"]:
                    strbin.observe(c["enc"], env0, c["pkt"], c["pos"], via, od, shared=own)
                obs = strbin.observe(c["enc"], c["env"], c["pkt"], c["pos"], via, od, shared=own)
                obs.pop("note", None)
                lines.append(dict(c, obs=obs, via=via + ("-defaults-omitted" if od else ""), src="A", nprev=len(c["pre"])))
                continue
            obs = strbin.observe(c["enc"], c["env"], c["pkt"], c["pos"], via, od, shared=shared)
            obs.pop("note", None)
            h = hist.setdefault((json.dumps(c["enc"], sort_keys=True), via, od), [])
            lines.append(dict(c, obs=obs, via=via + ("-defaults-omitted" if od else ""), src="A" if i < len(cases) else "B", nprev=len(h)))
            h.append(len(lines) - 1)
    for ln in lines:
        ctx.count((ln["src"], ln["via"], repr(ln["enc"]), repr(ln["env"]), bytes(ln["pkt"]), ln["pos"], repr(ln.get("pre"))))
    rej = tables.validate_lines(ctx, "Trace_StrBin", lines, "strbin", jobs=16)
    for idx, clause in rej.items():
        ln = lines[idx]
        enc = ln["enc"]
        exp = json.loads(clause[1])
        if ln["obs"]["k"] == "decode-error" and exp.get("k") == "val":
            pyc = PYCODEC.get(enc["codec"], enc["codec"])
            try:
                bytes(exp["text"]).decode(pyc)
            except UnicodeDecodeError:
                ctx.tally("legitimate_decode_errors")
                continue            # the bytes the specification selects are not valid in the codec: an error is right
        sig = f"C07/{enc['k']}/{enc['len']['k']}/{enc['delim']['k']}/{clause[0]}/{ln['obs']['k']}"
        payload = {k: ln[k] for k in ("enc", "env", "pkt", "pos", "via")}
        if ln["nprev"]:
            # does a fresh object decode it as specified? then what the same object decoded before is what matters
            via, od = ln["via"].split("-")[0], "omitted" in ln["via"]
            fresh = strbin.observe(enc, ln["env"], ln["pkt"], ln["pos"], via, od)
            fresh.pop("note", None)
            if fresh != ln["obs"]:
                sig += "/depends-on-earlier-packets"
                if ln.get("pre"):
                    payload["history"] = [{"env": e0, "pkt": ln["pkt"], "pos": ln["pos"]} for e0 in ln["pre"]]
                else:
                    h = hist[(json.dumps(enc, sort_keys=True), via, od)]
                    payload["history"] = [{k: lines[j][k] for k in ("env", "pkt", "pos")} for j in h[:h.index(idx)]][-40:]
        ctx.violation(sig, f"encoding {enc} env {ln['env']} pos {ln['pos']} pkt[:24] {ln['pkt'][:24]} via {ln['via']}"
                      f"{' (same type object, after ' + str(ln['nprev']) + ' earlier cases)' if ln['nprev'] else ''}: real {str(ln['obs'])[:300]}, "
                      f"specification {clause[1][:300]}", payload)
    ctx.exhaustive = True
    ctx.extra["lines"] = len(lines)
    oc = {}
    for ln in lines:
        oc[ln["obs"]["k"]] = oc.get(ln["obs"]["k"], 0) + 1
    ctx.extra["obs_counts"] = oc
    for ln in lines:
        if ln["enc"]["delim"]["k"] == "lead" and ln["obs"]["k"] == "val" and ln["pos"]:
            ctx.sample({k: ln[k] for k in ("enc", "env", "pkt", "pos", "obs", "via")}, limit=2)
            break
    ctx.sample({k: lines[-1][k] for k in ("enc", "env", "pos", "obs", "via")} | {"pkt_len": len(lines[-1]["pkt"])}, limit=4)


def replay(ctx, obj):
    via = obj.get("via", "ctor")
    shared = {}
    for h in obj.get("history", []):
        strbin.observe(obj["enc"], h["env"], h["pkt"], h["pos"], via.split("-")[0], "omitted" in via, shared=shared)
    obs = strbin.observe(obj["enc"], obj["env"], obj["pkt"], obj["pos"], via.split("-")[0], "omitted" in via, shared=shared)
    print("observed:", obs)
    obs.pop("note", None)
    rej = tables.validate_lines(ctx, "Trace_StrBin", [dict(obj, obs=obs)], "replay", jobs=1)
    print("rejected:", rej)
    for idx, clause in rej.items():
        ctx.violation(f"C07/replay/{clause[0]}", f"specification {clause}", obj)
