"""Shared by C05 / C14 / C01: run definitions x packets through the real parse_ccsds_packet and through the Decode walk in
TLC (Trace_Decode), interpret the verdicts."""
import json
import os
from concurrent.futures import ThreadPoolExecutor

from harness import core, xdoc


NOGEN = {"chk": False, "y1": 0, "w1": False, "x1": False, "y0": 0, "w0": False, "x0": False}


def observe_gen(dobj, d, pk):
    """The packet alone through packet_generator with parse_bad_pkts True / False: items, length warning, exception."""
    import warnings
    g = {"chk": True}
    for mode, flag in (("1", True), ("0", False)):
        y, x = 0, False
        with warnings.catch_warnings(record=True) as w:
            warnings.simplefilter("always")
            try:
                for _ in dobj.packet_generator(bytes(pk), parse_bad_pkts=flag, root_container_name=d["root"]):
                    y += 1
                    if y > 3:
                        break
            except Exception:  # noqa: BLE001
                x = True
        g["y" + mode] = y
        g["x" + mode] = x
        g["w" + mode] = core.flag_warnings(w) > 0
    return g


def run_groups(ctx, pid, groups, tag, jobs=16, sig_prefix=None, lines_per_file=None, gen_level=False, collect=None):
    """groups: list of dict(defn=..., pkts=[bytes-lists], route=..., label=...).  Each group is one definition built through
    one route and many packets.  Returns dict with counts per model status."""
    sig_prefix = sig_prefix or pid
    lines = []
    for g in groups:
        try:
            dobj = xdoc.make(g["defn"], g["route"])
        except Exception as e:  # noqa: BLE001
            ctx.violation(f"{sig_prefix}/build/{g['route'][0]}", f"definition could not be built via {g['route']}: {type(e).__name__}: {e}",
                          {"defn": g["defn"], "route": list(g["route"])})
            continue
        # a generator started with another root container has run on this definition before (and must have left it alone)
        others = [c for c in g["defn"]["corder"] if c != g["defn"]["root"]]
        if others and g["route"][0] != "file":
            import warnings
            with warnings.catch_warnings():
                warnings.simplefilter("ignore")
                try:
                    list(dobj.packet_generator(bytes(g["pkts"][0]) if g["pkts"] else b"", root_container_name=others[-1]))
                except Exception:  # noqa: BLE001
                    pass
        obs = []
        for pk in g["pkts"]:
            o = xdoc.observe_packet(dobj, g["defn"], pk)
            o["gen"] = observe_gen(dobj, g["defn"], pk) if gen_level else NOGEN
            obs.append(o)
        lines.append({"defn": g["defn"], "pkts": [list(p) for p in g["pkts"]], "obs": obs, "route": list(g["route"]), "label": g.get("label", "")})
    if not lines:
        return {}
    n = len(lines)
    per = lines_per_file or max(1, (n + jobs - 1) // jobs)
    parts = [(i, lines[i:i + per]) for i in range(0, n, per)]
    stats = {}

    def one(a):
        off, part = a
        path = os.path.join(ctx.work, f"{tag}-{off}.ndjson")
        slim = [{"defn": ln["defn"], "pkts": ln["pkts"], "obs": [{k: o[k] for k in ("outcome", "items", "pos", "hdrn", "udn", "gen")} for o in ln["obs"]]}
                for ln in part]
        core.write_ndjson(path, slim)
        r = ctx.tlc("Trace_Decode", "Trace_Decode.cfg", workers=1, env={"TRACE_FILE": path}, tag=f"{tag}@{off}", heap="4g")
        os.unlink(path)
        return off, part, r
    with ThreadPoolExecutor(max_workers=jobs) as ex:
        results = list(ex.map(one, parts))
    for off, part, r in results:
        if not r.ok():
            raise core.MachineryError(f"Trace_Decode failed on {tag}@{off}: {r.violated or r.error}\n" + "\n".join(r.stdout.splitlines()[-30:]))
        seen = 0
        for line in r.printed:
            v = core.parse_printed(line)
            if v[0] not in ("ACCEPT", "REJECT"):
                continue
            seen += 1
            di, pi, clause, status = v[1] - 1, v[2] - 1, v[3], v[4]
            ln = part[di]
            stats[status] = stats.get(status, 0) + 1
            ctx.traces += 1
            ctx.count((tag, ln["label"], tuple(ln["route"]), json.dumps(ln["defn"], sort_keys=True), bytes(ln["pkts"][pi])))
            ctx.tally(f"{tag}_status_{status}" + ("" if status != "ok" else ("_exact" if v[7] else "_inexact")))
            if collect is not None:
                collect.append((ln, pi, status, v[7]))
            if v[0] == "REJECT" and "UnicodeDecodeError" in ln["obs"][pi].get("note", "") and _codec_rejects(ln["defn"], v[6]):
                ctx.tally("legitimate_decode_errors")     # the bytes the specification selects are invalid in the codec
                continue
            if v[0] == "REJECT":
                o = ln["obs"][pi]
                ctx.violation(f"{sig_prefix}/{clause}/{ln['route'][0]}",
                              f"{clause}: model status {status} pos {v[5]}; real outcome {o['outcome']} pos {o['pos']} "
                              f"items {[(i['name'], i['val']) for i in o['items']][:8]} {o.get('note', '')} gen {o['gen']}; model mapping {v[6][:400]}",
                              {"defn": ln["defn"], "pkt": ln["pkts"][pi], "route": ln["route"], "label": ln["label"]})
        want = sum(len(ln["pkts"]) for ln in part)
        if seen != want:
            raise core.MachineryError(f"Trace_Decode verdicts {seen} != cases {want} on {tag}@{off}")
    return stats


def _codec_rejects(d, mapping_json):
    """Does some string item of the model's mapping hold bytes that the declared codec cannot decode?"""
    try:
        m = json.loads(mapping_json)
    except Exception:  # noqa: BLE001
        return False
    for it in m:
        if it["val"].get("t") == "strb" and it["name"] in d["params"]:
            codec = d["types"][d["params"][it["name"]]["type"]]["sb"]["codec"]
            pyc = {"US-ASCII": "ascii", "ISO-8859-1": "latin-1", "Windows-1252": "cp1252"}.get(codec, codec)
            try:
                bytes(it["val"]["bytes"]).decode(pyc)
            except UnicodeDecodeError:
                return True
    return False


def replay_case(ctx, obj, pid):
    g = {"defn": obj["defn"], "pkts": [obj["pkt"]], "route": tuple(obj.get("route", ["obj"])), "label": "replay"}
    st = run_groups(ctx, pid, [g], "replay", jobs=1)
    print("model status counts:", st)
