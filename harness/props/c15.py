"""C15 - serialization is deterministic and stable under repeated write/load cycles."""
import io
import itertools
import json
import os

from harness import core, gendefs, project, xdoc

META = {"title": "Serialization is deterministic and stable under repeated write/load cycles"}
DATE = "2024-01-01T00:00:00"


def uint(w=8):
    return xdoc.ptype_num("int", xdoc.numeric_enc("int", w))


def graph_defns(n, rng, cap=None):
    """Container dependency graphs on n containers: base and nested edges (acyclic), parameters shared between containers,
    parameter types shared between parameters."""
    names = [f"K{i}" for i in range(n)]
    params = ["PA", "PB", "PC", "PD"]
    ptype = {"PA": "TX", "PB": "TX", "PC": "TY", "PD": "TZ"}
    out = []
    choices = []
    for i, nm in enumerate(names):
        others = [x for x in names if x != nm]
        opts = []
        for base in [""] + others:
            for nest in [()] + [(o,) for o in others] + ([tuple(others[:2])] if len(others) >= 2 else []):
                for ps in (("PA",), ("PB", "PA"), ("PC",), ("PD", "PC")):
                    ents = [["p", ps[0]]] + [["c", x] for x in nest] + [["p", p] for p in ps[1:]]
                    opts.append({"name": nm, "base": base, "entries": ents})
        choices.append(opts)
    total = 1
    for c in choices:
        total *= len(c)
    seen = 0
    want = cap or total
    tries = 0
    while seen < want and tries < want * 40:
        tries += 1
        combo = [rng.choice(c) for c in choices] if cap else None
        if combo is None:
            break
        g = {c["name"]: ([c["base"]] if c["base"] else []) + [x[1] for x in c["entries"] if x[0] == "c"] for c in combo}
        if _acyclic(g):
            out.append({"conts": [dict(c) for c in combo], "ptype": ptype})
            seen += 1
    if not cap:
        for combo in itertools.product(*choices):
            g = {c["name"]: ([c["base"]] if c["base"] else []) + [x[1] for x in c["entries"] if x[0] == "c"] for c in combo}
            if _acyclic(g):
                out.append({"conts": [dict(c) for c in combo], "ptype": ptype})
    return out


def _acyclic(g):
    state = {}

    def visit(n):
        if state.get(n) == 1:
            return False
        if state.get(n) == 2:
            return True
        state[n] = 1
        ok = all(visit(m) for m in g.get(n, []))
        state[n] = 2
        return ok
    return all(visit(n) for n in g)


def to_defn(gr):
    d = xdoc.new_defn(gr["conts"][0]["name"])
    for t in sorted(set(gr["ptype"].values())):
        d["types"][t] = uint(8)
        d["torder"].append(t)
    for p, t in gr["ptype"].items():
        d["params"][p] = {"type": t, "short": "", "long": ""}
        d["porder"].append(p)
    from harness import crit
    for c in gr["conts"]:
        cl = [{"k": "cmp", "ref": "PA", "op": "==", "cal": True, "lit": crit.lit_num(False, 1)}] if c["base"] else []
        xdoc.add_container(d, c["name"], [(k, n) for k, n in c["entries"]], base=c["base"], crit_list=cl)
    return d


def orders(dobj):
    return [list(dobj.containers), list(dobj.parameters), list(dobj.parameter_types)]


def write(dobj):
    from lxml import etree
    return etree.tostring(dobj.to_xml_tree())


_OTHER = []


def other_definition():
    """A definition unlike any under test in everything the writer takes from the definition object rather than from its content
    (namespace, prefix, space system name, header attributes). It is written between the two writes of a definition under test."""
    if not _OTHER:
        from space_packet_parser.xtce import containers, definitions
        from harness import defs
        root = containers.SequenceContainer("OTHER_ROOT", defs.header_params([f"O{i}" for i in range(7)]), short_description="other",
                                            long_description="a different document")
        _OTHER.append(definitions.XtcePacketDefinition([root], ns={"o": "http://example.org/other-xtce", "xsi": "http://www.w3.org/2001/XMLSchema-instance"},
                                                       xtce_ns_prefix="o", root_container_name="OTHER_ROOT", space_system_name="OTHER_SYSTEM",
                                                       validation_status="Released", xtce_version="9.9", date="1999-01-01T00:00:00"))
    return _OTHER[0]


_OTHER_DOCS = []


def load_other_documents():
    """two small documents in the default namespace and without namespace are loaded (the loader keeps process-wide namespace state)"""
    from space_packet_parser.xtce.definitions import XtcePacketDefinition
    if not _OTHER_DOCS:
        d = xdoc.new_defn("OR")
        xdoc.add_param(d, "OP", uint(8))
        xdoc.add_container(d, "OR", [("p", "OP")])
        _OTHER_DOCS.append((xdoc.render(d, style="default", extra_ns=True).encode(), None))
        _OTHER_DOCS.append((xdoc.render(d, style="none").encode(), None))
        _OTHER_DOCS.append((xdoc.render(d, style="prefix", prefix="zz").encode(), "zz"))
    for xml, prefix in _OTHER_DOCS:
        XtcePacketDefinition.from_xtce(io.BytesIO(xml), xtce_ns_prefix=prefix, root_container_name="OR")


def cycles(dobj, n=3):
    """orders after build and after each of n write/load cycles, the serialized documents G1..Gn+1, and checks."""
    from lxml import etree
    from space_packet_parser.xtce.definitions import XtcePacketDefinition
    dobj.date = DATE
    hist = [orders(dobj)]
    docs = []
    probs = []
    cur = dobj
    for k in range(n + 1):
        before = project.project(cur)
        state0 = project.deep_state(cur)
        g_a = write(cur)
        write(other_definition())       # writing is a function of the definition written: another document in between changes nothing
        load_other_documents()          # ... and so does loading documents with other namespace conventions
        g_b = write(cur)
        if g_a != g_b:
            probs.append(f"two writes of the same definition differ (cycle {k})")
        if project.project(cur) != before:
            probs.append(f"writing altered the definition (cycle {k})")
        else:
            # ... nor anything else reachable from it through public attributes (derived fields the projection does not read)
            state1 = project.deep_state(cur)
            if state1 != state0:
                probs.append(f"writing altered the definition object (cycle {k}): {project.state_diff(state0, state1)}"[:300])
        docs.append(g_a)
        if k == 0:
            try:
                root = etree.fromstring(g_a)
                ns = cur.xtce_schema_uri
                bad = [el.tag for el in root.iter() if isinstance(el.tag, str) and etree.QName(el).namespace != ns]
                if bad:
                    probs.append(f"elements outside the definition's namespace {ns}: {bad[:3]}")
            except etree.XMLSyntaxError as e:
                probs.append(f"output is not well-formed XML: {e}")
        if k == n:
            break
        try:
            cur = XtcePacketDefinition.from_xtce(io.BytesIO(g_a), xtce_ns_prefix=cur.xtce_ns_prefix, root_container_name=cur.root_container_name)
        except Exception as e:  # noqa: BLE001
            probs.append(f"written document does not load (cycle {k + 1}): {type(e).__name__}: {e}"[:200])
            break
        hist.append(orders(cur))
    # write_xml (file on disk, pretty-printed with declaration) must be as deterministic and stable as to_xml_tree
    try:
        import pathlib
        import tempfile
        with tempfile.TemporaryDirectory(prefix="c15-") as td:
            p1, p2 = pathlib.Path(td) / "a.xml", pathlib.Path(td) / "b.xml"
            dobj.write_xml(p1)
            dobj.write_xml(p2)
            if p1.read_bytes() != p2.read_bytes():
                probs.append("two write_xml outputs of the same definition differ")
            re1 = XtcePacketDefinition.from_xtce(str(p1), xtce_ns_prefix=dobj.xtce_ns_prefix, root_container_name=dobj.root_container_name)
            re1.date = DATE
            if len(docs) > 1 and write(re1) != docs[1]:
                probs.append("the document written by write_xml loads to a definition that serializes differently from G2")
    except Exception as e:  # noqa: BLE001
        probs.append(f"write_xml / reload failed: {type(e).__name__}: {e}"[:200])
    for k in range(2, len(docs)):
        if docs[k] != docs[1]:
            probs.append(f"G{k + 1} differs from G2 (documents after the first cycle must be byte-identical)")
            break
    return hist, docs, probs


def run(ctx):
    q = ctx.quick
    rng = ctx.rng
    ctx.rule = ("RoundTrip.tla (cache-order model: pre-order cache filling, dependency-first container lookup, write in cache order) run by "
                "TLC on container dependency graphs of 2-4 containers (base + nested edges, shared parameters and parameter types) x initial "
                "orders x {built from objects, loaded from XML}, checking StableAfterOne / WriteIsPure / NoDuplicates, and compared with the "
                "cache orders the real library shows after build and after each of 3 write/load cycles. On the same definitions and on random "
                "rich definitions (all field kinds) the real serializer is checked directly: W(D) = W(D) bytewise, output well-formed with "
                "every element in the definition's namespace, D unchanged by writing, G2 = G3 = G4 bytewise; write_xml files likewise. Hand-written documents (string-encoded "
                "enumerations in every codec / byte-order spelling, time encodings) and all bundled / mission documents go through the same "
                "cycle checks. distinct = (graph, order, route).")
    ctx.assumptions = ["header date fixed (definition.date set)", "byte equality is observed directly on the real serializer; the TLA+ model "
                       "explains ordering only (value formatting such as 0 vs 0.0 is covered by the byte comparison of G2/G3/G4)"]
    cases = []
    for n, cap in ((2, None), (3, 120 if q else 1500), (4, 60 if q else 800)):
        gs = graph_defns(n, rng, cap)
        for gi, gr in enumerate(gs):
            names = [c["name"] for c in gr["conts"]]
            perms = list(itertools.permutations(names))
            pick = perms if (n == 2 or not q) and len(perms) <= 6 else rng.sample(perms, 2)
            for o in pick:
                cases.append({"conts": gr["conts"], "ptype": gr["ptype"], "order0": list(o), "how": "obj" if (gi + len(cases)) % 2 else "xml"})
    ctx.extra["graph_cases"] = len(cases)
    lines = []
    for c in cases:
        d = to_defn(c)
        d["corder"] = c["order0"]
        try:
            dobj = xdoc.build(d) if c["how"] == "obj" else xdoc.load(d)
            dobj.root_container_name = c["order0"][0]
            hist, docs, probs = cycles(dobj)
        except Exception as e:  # noqa: BLE001
            ctx.violation("C15/exception", f"{type(e).__name__}: {e}", {"case": c})
            continue
        for p in probs:
            ctx.violation("C15/graph/" + p.split("(")[0].strip().replace(" ", "-")[:50], p, {"case": c})
        if len(hist) == 4:
            lines.append(dict(c, obs=hist))
    if not lines:
        ctx.vacuity("no graph case survived build + 3 write/load cycles")
        return
    path = os.path.join(ctx.work, "rt.ndjson")
    core.write_ndjson(path, lines)
    r = ctx.tlc_expect_ok("Trace_RoundTrip", "Trace_RoundTrip.cfg", workers=8, env={"TRACE_FILE": path}, tag="orders")
    seen = 0
    for line in r.printed:
        v = core.parse_printed(line)
        if v[0] in ("ACCEPT", "REJECT"):
            seen += 1
            ctx.traces += 1
            ln = lines[v[1] - 1]
            ctx.count(json.dumps({k: ln[k] for k in ("conts", "order0", "how")}, sort_keys=True))
            if v[0] == "REJECT":
                # The order in which the sets are written is not part of C15 (only its stability is): a writer that orders the
                # sets differently is not a violation.  Recorded as model drift; stability and byte identity remain verdicts.
                ctx.tally("order_model_mismatch_not_a_verdict")
            if not (ln["obs"][1] == ln["obs"][2] == ln["obs"][3]):
                ctx.violation(f"C15/orders-unstable/{ln['how']}", f"cache orders keep changing after the first cycle: {ln['obs']}",
                              {"case": {k: ln[k] for k in ("conts", "ptype", "order0", "how")}})
    if seen != len(lines):
        raise core.MachineryError(f"verdicts {seen} != cases {len(lines)}")
    ctx.exhaustive = not q
    # ---- rich random definitions: byte-level checks on the real serializer
    nrich = 40 if q else 600
    for i in range(nrich):
        g = gendefs.DefGen(rng).build()
        route = [("obj",), ("xml", "prefix", False, False), ("xml", "default", True, True), ("xml", "none", False, False), ("obj", "rev"),
                 ("obj", "shared")][i % 6]
        try:
            dobj = xdoc.make(g.d, route)
            hist, docs, probs = cycles(dobj)
        except Exception as e:  # noqa: BLE001
            ctx.violation("C15/rich/exception", f"{type(e).__name__}: {e}"[:300], {"defn": g.d, "route": list(route)})
            continue
        ctx.traces += 1
        ctx.count(("rich", i, route))
        for p in probs:
            ctx.violation("C15/rich/" + p.split("(")[0].strip().replace(" ", "-")[:50], p, {"defn": g.d, "route": list(route)})
        if len(hist) == 4 and hist[1] != hist[2]:
            ctx.violation("C15/rich/orders-unstable", f"{hist[1]} vs {hist[2]}", {"defn": g.d, "route": list(route)})
    ctx.extra["rich_definitions"] = nrich
    documents_section(ctx)
    lattice_section(ctx)
    ctx.sample({"graph": lines[len(lines) // 2]["conts"], "order0": lines[len(lines) // 2]["order0"], "how": lines[len(lines) // 2]["how"],
                "orders_after_build_and_cycles": lines[len(lines) // 2]["obs"]}, limit=2)


def extra_documents():
    """Hand-written documents for constructs the abstract definitions do not generate: enumerations over string encodings in every
    codec / byte-order spelling the loader accepts, time encodings with offset only / scale only / both / none.  (name, xml, root)"""
    def doc(types, params, entries):
        return ('<?xml version="1.0" encoding="UTF-8"?>\n<xtce:SpaceSystem xmlns:xtce="http://www.omg.org/space/xtce" name="T">'
                '<xtce:Header date="2024-01-01T00:00:00" version="1.0" author="a"/><xtce:TelemetryMetaData>'
                f'<xtce:ParameterTypeSet>{types}</xtce:ParameterTypeSet><xtce:ParameterSet>{params}</xtce:ParameterSet>'
                f'<xtce:ContainerSet><xtce:SequenceContainer name="ROOT"><xtce:EntryList>{entries}</xtce:EntryList></xtce:SequenceContainer>'
                '</xtce:ContainerSet></xtce:TelemetryMetaData></xtce:SpaceSystem>')

    def enum_str(name, codec, order, bits, values):
        bo = f' byteOrder="{order}"' if order else ""
        en = "".join(f'<xtce:Enumeration value="{v}" label="L{i}"/>' for i, v in enumerate(values))
        return (f'<xtce:EnumeratedParameterType name="{name}"><xtce:StringDataEncoding encoding="{codec}"{bo}><xtce:SizeInBits><xtce:Fixed>'
                f'<xtce:FixedValue>{bits}</xtce:FixedValue></xtce:Fixed></xtce:SizeInBits></xtce:StringDataEncoding>'
                f'<xtce:EnumerationList>{en}</xtce:EnumerationList></xtce:EnumeratedParameterType>')

    def time_t(name, kind, attrs):
        return (f'<xtce:{kind}TimeParameterType name="{name}"><xtce:Encoding {attrs}><xtce:IntegerDataEncoding sizeInBits="8" '
                f'encoding="unsigned"/></xtce:Encoding>' + ('<xtce:ReferenceTime><xtce:Epoch>TAI</xtce:Epoch></xtce:ReferenceTime>' if kind == "Absolute" else "")
                + f'</xtce:{kind}TimeParameterType>')
    out = []
    MSB, LSB = "mostSignificantByteFirst", "leastSignificantByteFirst"
    combos = [("UTF-8", "", 8), ("US-ASCII", "", 8), ("ISO-8859-1", "", 8), ("Windows-1252", "", 8), ("UTF-16", MSB, 32), ("UTF-16", LSB, 32),
              ("UTF-16BE", "", 16), ("UTF-16LE", "", 16), ("UTF-16BE", LSB, 16), ("UTF-32", MSB, 64), ("UTF-32", LSB, 64), ("UTF-32BE", "", 32),
              ("UTF-32LE", "", 32)]
    for values in (("A", "B"), ("AB", "ba", "Z"), ("\u00e9", "x")):
        types = params = entries = ""
        for i, (codec, order, bits) in enumerate(combos):
            if values[0] == "\u00e9" and codec == "US-ASCII":
                continue
            types += enum_str(f"E{i}_T", codec, order, bits, values)
            params += f'<xtce:Parameter name="E{i}" parameterTypeRef="E{i}_T"/>'
            entries += f'<xtce:ParameterRefEntry parameterRef="E{i}"/>'
        out.append((f"string-enumerations {values}", doc(types, params, entries), "ROOT"))
    types = params = entries = ""
    for j, a in enumerate(['offset="5"', 'scale="2"', 'offset="5" scale="0.25"', 'units="seconds"', "", 'offset="0" scale="1"', 'offset="-3.5"']):
        for kind in ("Absolute", "Relative"):
            types += time_t(f"T{kind[0]}{j}_T", kind, a)
            params += f'<xtce:Parameter name="T{kind[0]}{j}" parameterTypeRef="T{kind[0]}{j}_T"/>'
            entries += f'<xtce:ParameterRefEntry parameterRef="T{kind[0]}{j}"/>'
    out.append(("time encodings", doc(types, params, entries), "ROOT"))
    return out


def lattice_section(ctx):
    """Every point of the attribute lattice of RoundTripAttrs.tla (each attribute at each of its values, the others at their
    defaults) as a definition, built from objects and loaded from XML: the same byte-level cycle checks."""
    from harness.props import c09
    r = ctx.tlc_expect_ok("Gen_RoundTripAttrs", "Gen_RoundTripAttrs.cfg", workers=1, tag="attribute-lattice", count=False)
    pts = []
    for line in r.printed:
        v = core.parse_printed(line)
        if v[0] == "ATTR":
            pts.append((v[1], v[2]))
    if len(pts) < 40:
        raise core.MachineryError(f"attribute lattice export too small: {len(pts)}")
    for i, (a, v) in enumerate(pts):
        d = c09.lattice_defn({a: v})
        for route in (("obj",), ("xml", "prefix", False, False), ("xml", "default", True, False)):
            try:
                dobj = xdoc.make(d, route)
                hist, docs, probs = cycles(dobj)
            except Exception as e:  # noqa: BLE001
                ctx.violation("C15/lattice/exception", f"{a}={v} via {route}: {type(e).__name__}: {e}"[:300], {"points": {a: v}, "route": list(route)})
                continue
            ctx.traces += 1
            ctx.count(("lattice", a, v, route))
            for p in probs:
                ctx.violation("C15/lattice/" + p.split("(")[0].strip().replace(" ", "-")[:50], f"{a}={v} via {route}: {p}", {"points": {a: v}, "route": list(route)})
    ctx.extra["lattice_points_cycled"] = len(pts)


def documents_section(ctx):
    """the hand-written documents above and every bundled / mission document: same byte-level checks"""
    import glob
    import warnings
    from space_packet_parser.xtce.definitions import XtcePacketDefinition
    n = 0
    todo = [(nm, io.BytesIO(x.encode()), "xtce", root, {"document": nm}) for nm, x, root in extra_documents()]
    for f in sorted(glob.glob("/repo/tests/test_data/*.xml")) + sorted(glob.glob("/repo/tests/test_data/*/*.xml")):
        head = open(f, "rb").read(3000).decode("utf-8", "ignore")
        todo.append((f, f, "xtce" if 'xmlns:xtce="' in head else None, None, {"file": f}))
    for nm, src, prefix, root, rep in todo:
        try:
            with warnings.catch_warnings():
                warnings.simplefilter("ignore")
                kw = {"root_container_name": root} if root else {}
                dobj = XtcePacketDefinition.from_xtce(src, xtce_ns_prefix=prefix, **kw)
        except Exception as e:  # noqa: BLE001
            if "file" in rep:
                continue                    # bundled documents that are not loadable on their own (fragments, other roots)
            ctx.violation("C15/document/does-not-load", f"{nm}: {type(e).__name__}: {e}"[:300], rep)
            continue
        try:
            hist, docs, probs = cycles(dobj)
        except Exception as e:  # noqa: BLE001
            ctx.violation("C15/document/exception", f"{nm}: {type(e).__name__}: {e}"[:300], rep)
            continue
        n += 1
        ctx.traces += 1
        ctx.count(("document", nm))
        for p in probs:
            ctx.violation("C15/document/" + p.split("(")[0].strip().replace(" ", "-")[:50], f"{nm}: {p}", rep)
    ctx.extra["documents_cycled"] = n
    if n < 8:
        ctx.vacuity(f"only {n} documents loaded for the document section")


def replay(ctx, obj):
    print(json.dumps(obj)[:600])
