"""C20 - parsed values are drop-in built-ins with a raw value and survive copying."""
import copy
import json
import math
import os
import pickle

from harness import core, defs

META = {"title": "Parsed values are drop-in built-ins with a raw value and survive copying"}
TOK = {"zero": 0, "one": 1, "neg": -17, "huge": 2 ** 70 + 3, "fzero": 0.0, "negzero": -0.0, "fone": 1.5, "fneg": -2.25, "nan": float("nan"),
       "inf": float("inf"), "neginf": float("-inf"), "tiny": 5e-324, "sempty": "", "ascii": "ON", "nonascii": "é€𝄞", "nul": "a\x00",
       "bempty": b"", "bytes": b"\x00\xff\x10", "bnul": b"ab\x00\x00", "false": False, "true": True}


def cls_of(kind):
    from space_packet_parser import common
    return {"Int": common.IntParameter, "Float": common.FloatParameter, "Str": common.StrParameter, "Binary": common.BinaryParameter,
            "Bool": common.BoolParameter}[kind]


def same(a, b):
    """identity of values incl. NaN and signed zero, and of type"""
    if type(a) is not type(b):
        return False
    if isinstance(a, float):
        return (math.isnan(a) and math.isnan(b)) or (a == b and math.copysign(1, a) == math.copysign(1, b))
    return a == b


def apply(step, o):
    if step == "copy":
        return copy.copy(o)
    if step == "deepcopy":
        return copy.deepcopy(o)
    return pickle.loads(pickle.dumps(o, protocol=int(step[-1])))


BUILTIN = {"Int": int, "Float": float, "Str": str, "Binary": bytes, "Bool": int}


def commutes(kind, p, plain):
    """every built-in operation on the parameter object gives what it gives on the plain built-in value"""
    probs = []
    base = BUILTIN[kind]
    if not isinstance(p, base):
        return [f"not an instance of {base.__name__}"]

    def chk(name, f):
        try:
            a = f(p)
        except Exception as e:  # noqa: BLE001
            a = ("EXC", type(e).__name__)
        try:
            b = f(plain)
        except Exception as e:  # noqa: BLE001
            b = ("EXC", type(e).__name__)
        if isinstance(a, float) and isinstance(b, float):
            ok = same(float(a), float(b))
        else:
            ok = a == b and isinstance(a, type(b)) if not isinstance(a, tuple) else a == b     # (a str subclass may hand itself back, e.g. from format)
        if not ok:
            probs.append(f"{name}: {a!r} vs built-in {b!r}")
    others = {"Int": [0, 3, -5, 2.5], "Float": [0.0, 1.5, -2, float("inf")], "Str": ["", "ON", "z"], "Binary": [b"", b"\x00", b"zz"], "Bool": [0, 1, 2]}[kind]
    for o in others:
        chk(f"== {o!r}", lambda x: x == o)
        chk(f"!= {o!r}", lambda x: x != o)
        chk(f"< {o!r}", lambda x: x < o)
        chk(f">= {o!r}", lambda x: x >= o)
        chk(f"+ {o!r}", lambda x: x + o)
        chk(f"dict[{o!r}]", lambda x: {x: 1}.get(o))
    # two parsed values compare with each other exactly as their plain values do (a NaN is not equal to another NaN, equal values
    # are equal, collections of them behave alike)
    try:
        q_param, q_plain = type(p)(plain), type(plain)(plain) if not (kind == "Float" and math.isnan(plain)) else float("nan")
        for nm, f in (("==", lambda a, b: a == b), ("!=", lambda a, b: a != b), ("<=", lambda a, b: a <= b), ("in list", lambda a, b: a in [b]),
                      ("list ==", lambda a, b: [a] == [b]), ("dict ==", lambda a, b: {"k": a} == {"k": b}), ("set size", lambda a, b: len({a, b}))):
            got, want = f(p, q_param), f(plain, q_plain)
            if got != want:
                probs.append(f"two parsed values: {nm} gives {got!r}, the built-in values give {want!r}")
    except Exception as e:  # noqa: BLE001
        probs.append(f"comparing two parsed values raised {type(e).__name__}: {e}")
    # ordering between parsed values follows the VALUES, whatever their raw values are (here the raw values are ordered the other way)
    try:
        for o in others:
            if isinstance(o, type(plain)) or (kind in ("Int", "Float", "Bool") and not isinstance(o, (str, bytes))):
                lo_raw, hi_raw = (1, 2) if not (plain < o) else (2, 1)
                a, b = type(p)(plain, lo_raw), type(p)(base(o) if kind != "Bool" else bool(o), hi_raw)
                pa, pb = plain, (base(o) if kind != "Bool" else bool(o))
                for nm, f in (("<", lambda x, y: x < y), (">", lambda x, y: x > y), ("<=", lambda x, y: x <= y), (">=", lambda x, y: x >= y),
                              ("==", lambda x, y: x == y), ("min", lambda x, y: base(min(x, y))), ("sorted", lambda x, y: [base(v) for v in sorted([x, y])])):
                    if repr(f(a, b)) != repr(f(pa, pb)):
                        probs.append(f"ordering of two parsed values ({plain!r} raw {lo_raw}, {o!r} raw {hi_raw}): {nm} gives {f(a, b)!r}, built-ins give {f(pa, pb)!r}")
    except Exception as e:  # noqa: BLE001
        probs.append(f"ordering two parsed values raised {type(e).__name__}: {e}")
    if not (kind == "Float" and math.isnan(plain)):
        chk("hash", hash)          # hash(nan) is identity-based since Python 3.10: not comparable between two objects
    chk("str", str)
    chk("bool", bool)
    chk("len/abs", (lambda x: len(x)) if kind in ("Str", "Binary") else (lambda x: abs(x)))
    if kind in ("Int", "Float", "Bool"):
        for o in (3, -2, 2.5):
            chk(f"* {o}", lambda x: x * o)
            chk(f"// {o}", lambda x: x // o)
            chk(f"% {o}", lambda x: x % o)
            chk(f"{o} - x", lambda x: o - x)
        for spec in ("", "08.3f" if kind == "Float" else "05d", ">10", "e" if kind == "Float" else "x"):
            chk(f"format {spec!r}", lambda x: format(x, spec))
        chk("int()", int)
        chk("float()", float)
        chk("round", lambda x: round(x, 1))
    if kind == "Int":
        chk("repr", repr)
        chk("bit_length", lambda x: x.bit_length())
        chk("to_bytes", lambda x: x.to_bytes(12, "big", signed=True))
        chk("index", lambda x: [10, 20, 30][x])
    if kind == "Float":
        chk("repr", repr)
        chk("is_integer", lambda x: x.is_integer())
        chk("hex", lambda x: x.hex())
    if kind == "Str":
        chk("repr", repr)
        chk("upper", lambda x: x.upper())
        chk("encode", lambda x: x.encode("utf-8"))
        chk("format", lambda x: f"{x:>6}")
        chk("slice", lambda x: x[:1])
        chk("in", lambda x: "O" in x)
    if kind == "Binary":
        chk("repr", repr)
        chk("hex", lambda x: x.hex())
        chk("slice", lambda x: x[:2])
        chk("decode", lambda x: x.decode("latin-1"))
    if kind == "Bool":
        chk("repr", lambda x: repr(bool(x)) if x is plain else repr(x))
    return probs


def run(ctx):
    q = ctx.quick
    rng = ctx.rng
    ctx.rule = ("Values.tla: five value classes x value tokens (0, negative, 2^70, NaN, +-inf, -0.0, denormal, empty / non-ASCII / NUL text "
                "and bytes, False/True) x raw argument in {None, falsy and truthy values of every type} x every sequence of <= 3 steps from "
                "{copy, deepcopy, pickle protocols 0..5} (TLC: RawRule, Preserved). Every exported case is executed on the real classes: "
                "raw_value rule, type, value, raw value after every step, and the built-in operations (comparison, hashing, dict-key use, "
                "arithmetic, formatting, conversions, methods) against the plain built-in. Parsed packets from a real generator run are "
                "copied / deep-copied / pickled and compared (items, order, raw values, raw bytes, cursor). distinct = exported cases.")
    ctx.assumptions = ["the built-in side of every comparison is evaluated by Python itself"]
    cfg = os.path.join(ctx.work, "values.cfg")
    with open(cfg, "w") as f:
        f.write("SPECIFICATION Spec\nCONSTANTS\n  MaxSteps = 3\nINVARIANT RawRule\nPROPERTY Preserved\nCHECK_DEADLOCK FALSE\n")
    ctx.tlc_expect_ok("Values", cfg, tag="value-states")
    gcfg = os.path.join(ctx.work, "gen.cfg")
    with open(gcfg, "w") as f:
        f.write("SPECIFICATION Spec\nCONSTANTS\n  MaxSteps = %d\nINVARIANT Export\nCHECK_DEADLOCK FALSE\n" % (2 if q else 3))
    rg = ctx.tlc_expect_ok("Values", gcfg, workers=1, count=False, tag="export")
    cases = [json.loads(core.parse_printed(l)[1]) for l in rg.printed]
    if len(cases) < 10000:
        raise core.MachineryError(f"export too small: {len(cases)}")
    ctx.exhaustive = True
    commuted = set()
    for c in cases:
        kind, vtok, rtok = c["kind"], c["v"], c["rawarg"]
        val = TOK[vtok]
        rawarg = None if rtok == "None" else TOK[rtok]
        ctx.count((kind, vtok, rtok, tuple(c["steps"])))
        ctx.traces += 1
        try:
            p = cls_of(kind)(val, rawarg)
            want_raw = val if rtok == "None" else TOK[c["raw"]]
            prob = None
            plain = int(val) if kind == "Bool" else val
            if not same(BUILTIN[kind](p), BUILTIN[kind](plain)):
                prob = f"value {p!r} != {val!r}"
            elif not same(p.raw_value, want_raw if kind != "Bool" or rtok != "None" else val):
                prob = f"raw_value {p.raw_value!r}, specification {want_raw!r} (raw argument {rtok})"
            o = p
            for s in c["steps"]:
                if prob:
                    break
                o = apply(s, o)
                if type(o) is not type(p) or not same(BUILTIN[kind](o), BUILTIN[kind](p)):
                    prob = f"after {s}: {o!r} ({type(o).__name__}) != {p!r}"
                elif not hasattr(o, "raw_value") or not same(o.raw_value, p.raw_value):
                    prob = f"after {s}: raw_value {getattr(o, 'raw_value', '<missing>')!r} != {p.raw_value!r}"
            if not prob and rtok == "None" and (kind, vtok, "rewrap") not in commuted:
                commuted.add((kind, vtok, "rewrap"))
                # a value that happens to be a parsed value itself (re-wrapped by user code) has no separate raw value either:
                # its raw value is the value, not whatever raw value the wrapped object carried
                sentinel = 12345 if kind == "Binary" else b"\x01other-raw"
                inner = cls_of(kind)(val, sentinel)
                p2 = cls_of(kind)(inner)
                try:
                    ok = same(BUILTIN[kind](p2.raw_value), BUILTIN[kind](plain))
                except Exception:  # noqa: BLE001
                    ok = False
                if not ok:
                    prob = f"raw_value of {kind}({kind}({vtok}, raw={sentinel!r})) built without a raw value is {p2.raw_value!r}, not the value"
            if not prob and (kind, vtok) not in commuted:
                commuted.add((kind, vtok))
                pr = commutes(kind, p, val if kind != "Bool" else val)
                if pr:
                    prob = "built-in operation differs: " + "; ".join(pr[:3])
        except Exception as e:  # noqa: BLE001
            prob = f"exception {type(e).__name__}: {e}"
        if prob:
            what = "raw-rule" if "raw_value" in prob and "after" not in prob else "copy" if "after" in prob else "builtin" if "built-in" in prob else "other"
            ctx.violation(f"C20/{kind}/{what}", f"{kind}({vtok}, raw={rtok}) steps {c['steps']}: {prob}", c)
    # values beyond the exported tokens: long byte strings and texts, huge and tiny numbers
    for kind, val in (("Binary", bytes(range(256)) * 2), ("Binary", b"\x00" * 129), ("Str", "x" * 1000 + "\u00e9"), ("Str", "line\nbreak\ttab" * 20),
                      ("Int", 2 ** 200), ("Int", -(2 ** 70) - 1), ("Float", 1.7976931348623157e308), ("Float", -5e-324), ("Float", 0.1 + 0.2)):
        try:
            pr = commutes(kind, cls_of(kind)(val), val)
        except Exception as e:  # noqa: BLE001
            pr = [f"exception {type(e).__name__}: {e}"]
        ctx.traces += 1
        ctx.count(("extra-value", kind, repr(val)[:40]))
        if pr:
            ctx.violation(f"C20/{kind}/builtin", f"{kind}({repr(val)[:60]}): built-in operation differs: " + "; ".join(pr[:3]), {"kind": kind, "value": repr(val)[:200]})
    ctx.extra["builtin_operation_sets_checked"] = sum(1 for x in commuted if len(x) == 2)
    ctx.extra["rewrapped_values_checked"] = sum(1 for x in commuted if len(x) == 3)
    if ctx.extra["rewrapped_values_checked"] < 10 and not ctx.violations:
        ctx.vacuity("re-wrapped values were not exercised")
    # ---- whole parsed packets
    from space_packet_parser import packets
    from harness import gendefs, xdoc
    npk = 0
    for i in range(6 if q else 60):
        g = gendefs.DefGen(rng).build()
        dobj = xdoc.build(g.d)
        import warnings
        with warnings.catch_warnings():
            warnings.simplefilter("ignore")
            pks = []
            for _ in range(10):
                one = bytes(g.packet(mutate=False))
                try:
                    pks += list(dobj.packet_generator(one))      # one packet per stream: a field error ends only its own stream
                except Exception:  # noqa: BLE001
                    continue
        for pk in pks:
            npk += 1
            for s in ("copy", "deepcopy", "pickle0", "pickle2", "pickle5"):
                try:
                    o = apply(s, pk)
                    prob = None
                    if type(o) is not packets.CCSDSPacket or list(o.keys()) != list(pk.keys()):
                        prob = "type / item order"
                    elif any(not same(BUILTIN[_kind(v)](o[k]), BUILTIN[_kind(v)](v)) or type(o[k]) is not type(v) or not _same_raw(o[k], v) for k, v in pk.items()):
                        prob = "item values / raw values"
                    elif bytes(o.raw_data) != bytes(pk.raw_data) or type(o.raw_data) is not packets.RawPacketData:
                        prob = "raw bytes"
                    elif o.raw_data.pos != pk.raw_data.pos:
                        prob = f"cursor {o.raw_data.pos} != {pk.raw_data.pos}"
                    elif list(o.header.keys()) != list(pk.header.keys()):
                        prob = "header view"
                except Exception as e:  # noqa: BLE001
                    prob = f"exception {type(e).__name__}: {e}"
                ctx.traces += 1
                if prob:
                    ctx.violation(f"C20/packet/{s}", f"{s} of a parsed packet: {prob}", {"step": s, "packet": list(bytes(pk.raw_data))})
    ctx.extra["packets_copied"] = npk
    if npk < (10 if q else 100):
        ctx.vacuity(f"only {npk} parsed packets were available for the copy / pickle comparison")
    ctx.sample({"case": cases[100]}, limit=1)
    ctx.sample({"case": cases[-1]}, limit=2)


def _kind(v):
    return {"IntParameter": "Int", "FloatParameter": "Float", "StrParameter": "Str", "BinaryParameter": "Binary", "BoolParameter": "Bool"}[type(v).__name__]


def _same_raw(a, b):
    ra, rb = getattr(a, "raw_value", None), getattr(b, "raw_value", None)
    if isinstance(ra, float) and isinstance(rb, float):
        return same(ra, rb)
    return ra == rb and type(ra) is type(rb)


def replay(ctx, obj):
    print("C20 replays by re-running the check; case:", obj)
