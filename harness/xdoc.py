"""Abstract definitions (DESIGN appendix A.2): render whole XTCE documents in several lexical spellings, build the
same definition through the public constructors, decode packets with the real library and project the results to
the typed values the specification uses."""
import io
import re
import warnings

from harness import crit, strbin, typed, xrender

URI = "http://www.omg.org/space/xtce"


def numeric_enc(kind="int", w=8, enc="unsigned", order="msb", fmt="ieee"):
    if kind == "int":
        return {"k": "int", "w": w, "enc": enc, "order": order, "fmt": ""}
    return {"k": "flt", "w": w, "enc": "", "order": order, "fmt": fmt}


NOCAL = {"default": {"k": "none"}, "context": []}


def ptype_num(kind, enc, cal=None, enum=(), unit=""):
    return {"kind": kind, "enc": enc, "cal": cal or NOCAL, "enum": list(enum), "unit": unit}


def ptype_sb(sb, unit=""):
    return {"kind": sb["k"], "sb": sb, "unit": unit}


def new_defn(root="ROOT"):
    return {"root": root, "params": {}, "porder": [], "types": {}, "torder": [], "containers": {}, "corder": []}


def add_param(d, name, pt, short="", long=""):
    tname = name + "_T"
    d["types"][tname] = pt
    d["torder"].append(tname)
    d["params"][name] = {"type": tname, "short": short, "long": long}
    d["porder"].append(name)


def add_container(d, name, entries, base="", crit_list=(), abstract=False, short="", long=""):
    d["containers"][name] = {"abstract": abstract, "base": base, "crit": list(crit_list),
                             "entries": [{"k": k, "n": n} for k, n in entries], "short": short, "long": long}
    d["corder"].append(name)


# ------------------------------------------------------------------------------------------------ XML
def xml_any_type(name, pt, od=False):
    if pt["kind"] in ("bin", "str"):
        x = strbin.xml_type(name, pt["sb"], od)
        if pt.get("unit"):
            i = x.index(">") + 1
            x = x[:i] + f'<UnitSet><Unit>{pt["unit"]}</Unit></UnitSet>' + x[i:]
        return x
    return xrender.xml_type(name, pt, od)


def xml_container(name, c, od=False, base_first=False):
    a = f'name="{name}"'
    if not (od and not c["abstract"]):
        a += f' abstract="{"true" if c["abstract"] else "false"}"'
    if c.get("short"):
        a += f' shortDescription="{c["short"]}"'
    s = f"<SequenceContainer {a}>"
    if c.get("long"):
        s += f"<LongDescription>{c['long']}</LongDescription>"
    base = ""
    if c["base"]:
        if c["crit"]:
            base = f'<BaseContainer containerRef="{c["base"]}"><RestrictionCriteria>{xrender.xml_crit_list(c["crit"], od)}</RestrictionCriteria></BaseContainer>'
        else:
            base = f'<BaseContainer containerRef="{c["base"]}"/>'
    el = "<EntryList>" + "".join(
        f'<ParameterRefEntry parameterRef="{e["n"]}"/>' if e["k"] == "p" else f'<ContainerRefEntry containerRef="{e["n"]}"/>'
        for e in c["entries"]) + "</EntryList>"
    s += (base + el) if base_first else (el + base)
    return s + "</SequenceContainer>"


def render(d, style="prefix", prefix="xtce", od=False, extra_ns=False, comments=False, base_first=False, porder=None, torder=None,
           corder=None, name="VERIF", boolcase=None):
    """style: prefix | default | none.  comments: insert comments / whitespace between elements.
    boolcase: 'Title' / 'UPPER' spell every true / false attribute value that way (the loader reads them case-insensitively);
    by default documents in the default namespace use 'True', documents without namespace 'TRUE', prefixed ones 'true'."""
    if boolcase is None:
        boolcase = {"default": "Title", "none": "UPPER"}.get(style, "lower")
    body = f'<SpaceSystem name="{name}"><Header date="2024-01-01T00:00:00" version="1.0" author="verif"/><TelemetryMetaData>'
    body += "<ParameterTypeSet>" + "".join(xml_any_type(t, d["types"][t], od) for t in (torder or d["torder"])) + "</ParameterTypeSet>"
    body += "<ParameterSet>"
    for p in (porder or d["porder"]):
        pp = d["params"][p]
        a = f'name="{p}" parameterTypeRef="{pp["type"]}"'
        if pp.get("short"):
            a += f' shortDescription="{pp["short"]}"'
        if pp.get("long"):
            body += f"<Parameter {a}><LongDescription>{pp['long']}</LongDescription></Parameter>"
        else:
            body += f"<Parameter {a}/>"
    body += "</ParameterSet><ContainerSet>"
    body += "".join(xml_container(c, d["containers"][c], od, base_first) for c in (corder or d["corder"]))
    body += "</ContainerSet></TelemetryMetaData></SpaceSystem>"
    if boolcase in ("Title", "UPPER"):
        body = re.sub(r'="(true|false)"', lambda m: '="' + (m.group(1).title() if boolcase == "Title" else m.group(1).upper()) + '"', body)
    elif comments:
        body = body.replace('="false"', '="0"')         # xs:boolean also spells false as 0 (the loader reads anything but "true" as false)
    if comments:
        # a comment (and whitespace) as first child of every element that has children, and between all siblings
        body = re.sub(r"(<[A-Za-z][^>]*[^/]>)(?=<)", lambda m: m.group(1) + "\n  <!-- c -->\n  ", body)
        body = re.sub(r"(</[A-Za-z][^>]*>|<[A-Za-z][^>]*/>)(?=<)", lambda m: m.group(1) + "\n <!-- s -->\t", body)
        body = body.replace("<UnitSet/>", "<UnitSet><!-- no unit --></UnitSet>")      # a comment as the only child of an empty element
    xsi = ' xmlns:xsi="http://www.w3.org/2001/XMLSchema-instance" xsi:schemaLocation="http://www.omg.org/space/xtce SpaceSystem.xsd"' if extra_ns else ""
    if style == "prefix":
        body = re.sub(r"<(/?)([A-Za-z])", lambda m: f"<{m.group(1)}{prefix}:{m.group(2)}", body)
        body = body.replace(f"<{prefix}:SpaceSystem ", f'<{prefix}:SpaceSystem xmlns:{prefix}="{URI}"{xsi} ', 1)
    elif style == "default":
        body = body.replace("<SpaceSystem ", f'<SpaceSystem xmlns="{URI}"{xsi} ', 1)
    else:
        body = body.replace("<SpaceSystem ", f"<SpaceSystem{xsi} ", 1) if xsi else body
    return '<?xml version="1.0" encoding="UTF-8"?>\n' + body


def load(d, style="prefix", prefix="xtce", **kw):
    from space_packet_parser.xtce.definitions import XtcePacketDefinition
    xml = render(d, style=style, prefix=prefix, **kw)
    return XtcePacketDefinition.from_xtce(io.BytesIO(xml.encode()), xtce_ns_prefix=prefix if style == "prefix" else None,
                                          root_container_name=d["root"])


# ---------------------------------------------------------------------------------------- constructors
def obj_any_type(name, pt):
    from space_packet_parser.xtce import parameter_types
    if pt["kind"] in ("bin", "str"):
        t = strbin.obj_type(name, pt["sb"])
        if pt.get("unit"):
            t.unit = pt["unit"]
        return t
    return xrender.obj_type(name, pt)


def build(d, reverse=False):
    """reverse: hand the containers to the constructor leaf-first (descendants before their bases, users before nested containers)"""
    from space_packet_parser.xtce import containers, definitions, parameters
    with warnings.catch_warnings():
        warnings.simplefilter("ignore")
        types = {t: obj_any_type(t, d["types"][t]) for t in d["torder"]}
    params = {p: parameters.Parameter(p, types[d["params"][p]["type"]], d["params"][p].get("short") or None,
                                      d["params"][p].get("long") or None) for p in d["porder"]}
    conts = {}

    def mk(cn):
        if cn in conts:
            return conts[cn]
        c = d["containers"][cn]
        entries = [params[e["n"]] if e["k"] == "p" else mk(e["n"]) for e in c["entries"]]
        conts[cn] = containers.SequenceContainer(
            cn, entries, short_description=c.get("short") or None, long_description=c.get("long") or None,
            base_container_name=c["base"] or None, restriction_criteria=[xrender.obj_crit(x) for x in c["crit"]],
            abstract=c["abstract"], inheritors=[k for k in d["corder"] if d["containers"][k]["base"] == cn])
        return conts[cn]
    for cn in d["corder"]:
        mk(cn)
    order = list(reversed(d["corder"])) if reverse else d["corder"]
    main = definitions.XtcePacketDefinition([conts[c] for c in order], root_container_name=d["root"])
    # container objects may serve several definitions (a reduced export next to the full one): building another definition from
    # some of the same objects must leave this one as it is
    definitions.XtcePacketDefinition([conts[d["corder"][0]]], root_container_name=d["corder"][0])
    if len(d["corder"]) > 2:
        definitions.XtcePacketDefinition([conts[d["corder"][-1]], conts[d["corder"][1]]], root_container_name=d["corder"][-1])
    return main


def share_equal_parts(dobj):
    """Make equal calibrators, encodings and criteria of an object-built definition ONE shared instance each (a thermistor table used
    by several channels, one encoding object used by several types): how definitions assembled from objects commonly look.  Equality
    is judged by the harness's projection; this only chooses an input, the definition is projected after the sharing."""
    import json
    from harness import project
    pool = {}

    def intern(o, proj):
        try:
            key = (type(o).__name__, json.dumps(proj(o), sort_keys=True, default=str))
        except Exception:  # noqa: BLE001
            return o
        return pool.setdefault(key, o)
    n = 0
    for pt in dobj.parameter_types.values():
        enc = getattr(pt, "encoding", None)
        if enc is None:
            continue
        if getattr(enc, "default_calibrator", None) is not None:
            enc.default_calibrator = intern(enc.default_calibrator, project.p_cal)
        for cc in getattr(enc, "context_calibrators", None) or []:
            cc.calibrator = intern(cc.calibrator, project.p_cal)
            cc.match_criteria[:] = [intern(m, project.p_crit if type(m).__name__ == "Comparison" else project.p_bexpr) for m in cc.match_criteria]
        shared = intern(enc, project.p_encoding)
        if shared is not enc:
            pt.encoding = shared
            n += 1
    for sc in dobj.containers.values():
        sc.restriction_criteria[:] = [intern(m, project.p_crit if type(m).__name__ == "Comparison" else project.p_bexpr)
                                      for m in (sc.restriction_criteria or [])]
    return n


def reverse_listed_orders(dobj):
    """Object-built definitions may list the terms of a polynomial in any order (highest exponent first is as common as lowest first):
    reverse every coefficient list. The polynomial, and so the definition's meaning, is the same."""
    seen = set()
    for pt in dobj.parameter_types.values():
        enc = getattr(pt, "encoding", None)
        cals = [getattr(enc, "default_calibrator", None)] + [cc.calibrator for cc in (getattr(enc, "context_calibrators", None) or [])]
        for cal in cals:
            if type(cal).__name__ == "PolynomialCalibrator" and id(cal) not in seen:
                seen.add(id(cal))
                cal.coefficients = list(reversed(cal.coefficients))


def make(d, route):
    """route: ('obj',) | ('xml', style, od, comments)"""
    if route[0] == "obj":
        if len(route) > 1 and route[1] == "shared":
            dobj = build(d)
            share_equal_parts(dobj)
            return dobj
        if len(route) > 1 and route[1] == "rev":
            dobj = build(d, reverse=True)
            reverse_listed_orders(dobj)
            return dobj
        return build(d)
    if route[0] == "file":           # a document on disk, loaded as it is: ("file", path, prefix or "", root)
        from space_packet_parser.xtce.definitions import XtcePacketDefinition
        with warnings.catch_warnings():
            warnings.simplefilter("ignore")
            return XtcePacketDefinition.from_xtce(route[1], xtce_ns_prefix=route[2] or None, root_container_name=route[3])
    kw = {}
    if len(route) > 4 and route[4] == "rev":
        kw["corder"] = list(reversed(d["corder"]))        # descendants before ancestors, nested containers after their users
    return load(d, style=route[1], od=route[2], comments=route[3] if len(route) > 3 else False, **kw)


# ------------------------------------------------------------------------------------------ observation
def typed_item(d, name, v):
    kind = d["types"][d["params"][name]["type"]]["kind"] if name in d["params"] else "?"
    cn = type(v).__name__
    cls = typed.cls_name(v)

    def tv(x, as_value):
        if cn == "BoolParameter" and as_value:
            return {"t": "bool", "n": int(bool(x))}
        if isinstance(x, bool):
            return {"t": "bool", "n": int(x)}
        if isinstance(x, float):
            return typed.t_float(x)
        if isinstance(x, int):
            return typed.t_int(x)
        if isinstance(x, (bytes, bytearray)):
            return {"t": "bin", "bytes": list(x)}
        if isinstance(x, str):
            if kind == "str":
                codec = d["types"][d["params"][name]["type"]]["sb"]["codec"]
                try:
                    return {"t": "strb", "bytes": list(x.encode({"US-ASCII": "ascii", "ISO-8859-1": "latin-1", "Windows-1252": "cp1252"}.get(codec, codec)))}
                except Exception:  # noqa: BLE001
                    return {"t": "other"}
            return {"t": "str", "s": x}
        return {"t": "other"}
    raw = getattr(v, "raw_value", None)
    return {"name": name, "val": tv(v, True), "raw": tv(raw, False) if raw is not None else {"t": "other"}, "cls": cls}


def observe_packet(defn_obj, d, pkt):
    """parse_ccsds_packet on one packet. Returns the obs record of Trace_Decode."""
    from space_packet_parser import packets
    from space_packet_parser.exceptions import UnrecognizedPacketTypeError
    # the raw packet is decoded once beforehand (as a caller that first looks at a packet and then decodes it for good would): what is
    # observed is the second decode of the same raw packet object, which must not know about the first
    raw = packets.RawPacketData(bytes(pkt))
    with warnings.catch_warnings():
        warnings.simplefilter("ignore")
        try:
            defn_obj.parse_ccsds_packet(packets.CCSDSPacket(raw_data=raw))
        except Exception:  # noqa: BLE001
            pass
    p = packets.CCSDSPacket(raw_data=raw)
    with warnings.catch_warnings():
        warnings.simplefilter("ignore")
        try:
            defn_obj.parse_ccsds_packet(p)
            outcome = "ok"
            src = p
        except UnrecognizedPacketTypeError as e:
            outcome = "unrec"
            src = e.partial_data if e.partial_data is not None else {}
        except Exception as e:  # noqa: BLE001
            return {"outcome": "exc", "items": [], "pos": p.raw_data.pos, "hdrn": [], "udn": [], "note": f"{type(e).__name__}: {e}"[:100]}
    items = [typed_item(d, k, v) for k, v in src.items()]
    hdrn = list(p.header.keys()) if outcome == "ok" else []
    udn = list(p.user_data.keys()) if outcome == "ok" else []
    return {"outcome": outcome, "items": items, "pos": p.raw_data.pos, "hdrn": hdrn, "udn": udn, "note": ""}
