"""Shared machinery: TLC runner, evidence, known findings, violation bookkeeping.

Every property check (harness/props/cNN.py) receives a Ctx and
  * runs TLC on the modules in /verif/spec (ctx.tlc),
  * drives the real library from /repo's working tree,
  * reports differences with ctx.violation(signature, detail, replay_obj),
  * reports what was covered (ctx.add_*).
check.py turns that into VIOLATION / KNOWN-FINDING lines, the evidence file and the exit code.
"""
import hashlib
import json
import os
import random
import re
import shutil
import subprocess
import sys
import time

VERIF = os.path.dirname(os.path.dirname(os.path.abspath(__file__)))
REPO = os.environ.get("SPP_REPO", "/repo")
SPEC = os.path.join(VERIF, "spec")
TLA_CP = "/opt/veriftools/tla/tla2tools.jar:/opt/veriftools/tla/CommunityModules-deps.jar"
GUARD = "SPP_VERIF_TRACE"


# ---------------------------------------------------------------------------------------------- warnings
# The properties speak of "a length-mismatch warning" and of packets "dropped with a warning"; they do not fix the wording. Warnings
# issued from the library's own files are classified by the phrases of the pinned tree; one whose wording is not recognised is
# "other" and is matched against the expected counts by totals, so that a reworded message is not an alarm.
WARNING_PHRASES = {"mismatch": "did not match the length of data available", "gap": "are not in sequence",
                   "nostart": "without declaring the start", "selfref": "comparison against a current value"}


def warning_kinds(ws):
    k = {kind: 0 for kind in WARNING_PHRASES}
    k["other"] = 0
    lib = os.path.join(REPO, "space_packet_parser")
    for w in ws:
        if not str(getattr(w, "filename", "")).startswith(lib) or not issubclass(w.category, UserWarning):
            continue
        msg = str(w.message)
        for kind, phrase in WARNING_PHRASES.items():
            if phrase in msg:
                k[kind] += 1
                break
        else:
            k["other"] += 1
    return k


def flag_warnings(ws):
    """Number of warnings that flag a packet in a context where only the length-mismatch warning (and the unrelated self-reference
    note) can occur: the recognised mismatch warnings plus any of unrecognised wording."""
    k = warning_kinds(ws)
    return k["mismatch"] + k["other"]


def warnings_agree(k, expected):
    """expected: {kind: count}. Recognised warnings may not exceed their kind's count; together with those of unrecognised wording
    they must add up to the expected total (equality per kind whenever every wording is recognised)."""
    return all(k[kind] <= n for kind, n in expected.items()) and sum(k[kind] for kind in expected) + k["other"] == sum(expected.values())


class MachineryError(Exception):
    """TLC / SANY / harness failure: exit 2, never a verdict on the property."""


def bind_repo():
    """Import space_packet_parser from /repo's working tree (never from site-packages) with hooks on."""
    os.environ[GUARD] = "1"
    if sys.path[0] != REPO:
        sys.path.insert(0, REPO)
    import logging
    logging.disable(logging.CRITICAL)       # the library logs skipped packets etc.; observations do not use logging
    import space_packet_parser  # noqa
    f = os.path.abspath(space_packet_parser.__file__)
    if not f.startswith(os.path.abspath(REPO) + os.sep):
        raise MachineryError(f"space_packet_parser imported from {f}, not from {REPO}")
    return space_packet_parser


class TlcResult:
    def __init__(self):
        self.stdout = ""
        self.rc = None
        self.generated = 0
        self.distinct = 0
        self.printed = []      # raw text of PrintT lines that start with <<"
        self.error = None      # first 'Error:' line, if any
        self.violated = None   # name of violated invariant / property
        self.actions = {}      # action name -> (distinct, generated) from -coverage
        self.wall = 0.0

    def ok(self):
        return self.rc == 0 and self.error is None


import itertools
_COUNTER = itertools.count()
_STATS = re.compile(r"^(\d+) states generated, (\d+) distinct states found", re.M)
_SIMSTATS = re.compile(r"The number of states generated: (\d+)")
_INV = re.compile(r"Error: Invariant (\S+) is violated")
_ACTPROP = re.compile(r"Error: Action property (\S+) is violated")
_COV = re.compile(r"^<(\w+) line \d+, col \d+ to line \d+, col \d+ of module (\w+)>: (\d+):(\d+)", re.M)


def _balanced(text):
    """do the << >> [ ] { } ( ) brackets outside string literals balance?"""
    depth = 0
    i = 0
    n = len(text)
    while i < n:
        c = text[i]
        if c == '"':
            i += 1
            while i < n and text[i] != '"':
                i += 2 if text[i] == "\\" else 1
        elif text.startswith("<<", i):
            depth += 1
            i += 1
        elif text.startswith(">>", i):
            depth -= 1
            i += 1
        elif c in "[{(":
            depth += 1
        elif c in "]})":
            depth -= 1
        i += 1
    return depth == 0


class Ctx:
    def __init__(self, pid, tier, seed):
        self.pid = pid
        self.tier = tier
        self.seed = seed
        self.rng = random.Random(seed)
        self.t0 = time.time()
        self.work = os.path.join(VERIF, ".work", f"{pid}-{os.getpid()}")
        shutil.rmtree(self.work, ignore_errors=True)
        os.makedirs(self.work)
        self.violations = []
        self.states = 0
        self.transitions = 0
        self.traces = 0
        self.evaluations = 0
        self.distinct = set()
        self.samples = []
        self.extra = {}
        self.tlc_runs = []
        self.assumptions = []
        self.rule = ""
        self.exhaustive = False
        self.quick = tier == "quick"

    # ------------------------------------------------------------------ TLC
    def tlc(self, module, cfg=None, *, workers=16, simulate=None, depth=None, dump=None, env=None,
            timeout=None, coverage=False, extra=(), heap="8g", count=True, deadlock=None, tag=None):
        """Run TLC on spec/<module>.tla with spec/<cfg>. Returns TlcResult (never raises on a
        property violation; raises MachineryError on crash / timeout / parse errors)."""
        cfg = cfg or module + ".cfg"
        if timeout is None:
            # generous: a loaded machine must not turn a slow TLC run into a broken check (quick runs take seconds to a few minutes)
            timeout = 1800 if self.quick else 7200
        meta = os.path.join(self.work, f"meta-{next(_COUNTER)}")
        cmd = ["java", "-XX:+UseParallelGC", f"-Xmx{heap}", "-Xss64m", "-cp", TLA_CP, "tlc2.TLC",
               "-workers", str(workers), "-metadir", meta, "-noGenerateSpecTE", "-config", cfg]
        if simulate:
            cmd += ["-simulate", simulate]
        if depth:
            cmd += ["-depth", str(depth)]
        if dump:
            cmd += ["-dump", "dot,actionlabels", dump]
        if coverage:
            cmd += ["-coverage", "1"]
        if deadlock is False:
            cmd += ["-deadlock"]
        cmd += list(extra)
        cmd += [module + ".tla"]
        e = dict(os.environ)
        e.update({k: str(v) for k, v in (env or {}).items()})
        t0 = time.time()
        try:
            p = subprocess.run(cmd, cwd=SPEC, env=e, capture_output=True, text=True, timeout=timeout)
        except subprocess.TimeoutExpired as ex:
            raise MachineryError(f"TLC timeout after {timeout}s on {module}/{cfg}") from ex
        finally:
            shutil.rmtree(meta, ignore_errors=True)
        r = TlcResult()
        r.wall = time.time() - t0
        r.stdout = p.stdout + p.stderr
        r.rc = p.returncode
        m = _STATS.findall(r.stdout)
        if m:
            r.generated, r.distinct = int(m[-1][0]), int(m[-1][1])
        else:
            m2 = _SIMSTATS.findall(r.stdout)
            if m2:
                r.generated = r.distinct = int(m2[-1])
        acc = None
        for line in r.stdout.splitlines():
            if acc is not None:             # TLC wraps wide tuples over several lines: collect until brackets balance
                acc += " " + line.strip()
                if _balanced(acc):
                    r.printed.append(acc)
                    acc = None
                continue
            if line.startswith('<<"') or line.startswith('<< "'):
                if _balanced(line):
                    r.printed.append(line)
                else:
                    acc = line
            elif line.startswith("Error:") and r.error is None:
                r.error = line
        mi = _INV.search(r.stdout) or _ACTPROP.search(r.stdout)
        if mi:
            r.violated = mi.group(1)
        elif "Temporal properties were violated" in r.stdout:
            r.violated = "<temporal>"
        elif "Deadlock reached" in r.stdout:
            r.violated = "<deadlock>"
        for name, mod, d, g in _COV.findall(r.stdout):
            a = r.actions.get(name, (0, 0))
            r.actions[name] = (a[0] + int(d), a[1] + int(g))
        # Machinery failures: parse errors, Java exceptions, TLC bugs
        if r.rc not in (0, 10, 11, 12, 13) or "Parsing or semantic analysis failed" in r.stdout:
            ls = r.stdout.splitlines()
            k = next((i for i, x in enumerate(ls) if x.startswith("Error:")), max(0, len(ls) - 40))
            tail = "\n".join(ls[k:k + 25])
            raise MachineryError(f"TLC failed (rc={r.rc}) on {module}/{cfg}:\n{tail}")
        if count:
            self.states += r.distinct
            self.transitions += r.generated
        self.tlc_runs.append({"module": module, "cfg": cfg, "tag": tag, "mode": "simulate" if simulate else "bfs",
                              "distinct_states": r.distinct, "states_generated": r.generated,
                              "wall_s": round(r.wall, 2), "violated": r.violated,
                              "error": r.error})
        return r

    def tlc_expect_ok(self, module, cfg=None, **kw):
        """Run TLC; a violated invariant of the *demanded* model is a machinery failure (the model itself
        is wrong), not a verdict on the code."""
        r = self.tlc(module, cfg, **kw)
        if not r.ok():
            tail = "\n".join(r.stdout.splitlines()[-60:])
            raise MachineryError(f"specification check failed: {module}/{cfg or module + '.cfg'}: "
                                 f"{r.violated or r.error}\n{tail}")
        return r

    def apalache_expect_ok(self, relpath, init, inv, length, timeout=5400, tag=""):
        """Run apalache-mc check on spec/<relpath>; anything but 'EXITCODE: OK' is a machinery failure (the specification's own
        invariant is not inductive / Apalache unavailable), never a verdict on the code."""
        import subprocess
        out = os.path.join(self.work, f"apa-{next(_COUNTER)}")
        t0 = time.time()
        try:
            p = subprocess.run(["apalache-mc", "check", f"--init={init}", f"--inv={inv}", f"--length={length}", f"--out-dir={out}",
                                os.path.join(SPEC, relpath)], capture_output=True, text=True, timeout=timeout, cwd=os.path.dirname(os.path.join(SPEC, relpath)))
        except (OSError, subprocess.TimeoutExpired) as e:
            raise MachineryError(f"apalache run failed: {relpath} {init}/{inv}: {e}")
        shutil.rmtree(out, ignore_errors=True)
        if "EXITCODE: OK" not in p.stdout:
            raise MachineryError(f"apalache: {relpath} --init={init} --inv={inv} --length={length}: {p.stdout[-800:]}")
        self.extra.setdefault("apalache", []).append({"module": relpath, "init": init, "inv": inv, "length": length, "wall_s": round(time.time() - t0, 1), "tag": tag})

    def require_actions(self, r, names):
        """Vacuity guard: every named action must have been taken at least once."""
        missing = [n for n in names if r.actions.get(n, (0, 0))[1] == 0]
        if missing:
            raise MachineryError(f"vacuity: actions never taken in {r!r}: {missing}")

    # ------------------------------------------------------------ reporting
    def violation(self, signature, detail, replay_obj=None):
        self.violations.append({"signature": signature, "detail": detail, "replay": replay_obj})

    def vacuity(self, msg):
        """A coverage target of the check itself was not reached. Reported as a machinery failure (exit 2), but
        only when the run found no violation - a broken tree may be the reason the target was missed."""
        self.vacuous = getattr(self, "vacuous", []) + [msg]

    def sample(self, obj, limit=6):
        if len(self.samples) < limit:
            self.samples.append(obj)

    def count(self, key=None, n=1):
        self.evaluations += n
        if key is not None:
            if len(self.distinct) < 2_000_000:
                self.distinct.add(key if isinstance(key, (str, int, tuple)) else json.dumps(key, sort_keys=True))

    def tally(self, name, n=1):
        self.extra.setdefault("tallies", {})
        self.extra["tallies"][name] = self.extra["tallies"].get(name, 0) + n

    def cleanup(self):
        shutil.rmtree(self.work, ignore_errors=True)


def load_known():
    p = os.path.join(VERIF, "known_findings.json")
    if not os.path.exists(p):
        return {"known": [], "fixed": []}
    with open(p) as f:
        return json.load(f)


def start_memory_watchdog(ctx, limit_gb=None):
    """The harness itself needs well under 2 GB. If this process grows beyond the limit, the code under test is producing items
    without end (a framer that no longer advances, a listing that grows for ever): that is reported as a violation of the property
    being checked - with what was recorded so far - instead of letting the kernel kill arbitrary processes."""
    import threading
    limit = int(float(os.environ.get("VERIF_RSS_LIMIT_GB", limit_gb or 12)) * (1 << 30))
    page = os.sysconf("SC_PAGE_SIZE")

    def watch():
        while True:
            time.sleep(0.5)
            try:
                with open("/proc/self/statm") as f:
                    rss = int(f.read().split()[1]) * page
            except Exception:  # noqa: BLE001
                return
            if rss > limit:
                try:
                    rdir = os.path.join(VERIF, "replays", ctx.pid)
                    os.makedirs(rdir, exist_ok=True)
                    path = os.path.join(rdir, "runaway-memory.json")
                    with open(path, "w") as f:
                        json.dump({"property": ctx.pid, "signature": f"{ctx.pid}/runaway",
                                   "detail": f"the check process grew beyond {limit >> 30} GB while exercising the library: the code under test "
                                             "yields / accumulates without end", "violations_recorded_before": [v["signature"] for v in ctx.violations][:20]}, f)
                    sys.stdout.write(f"VIOLATION property={ctx.pid} replay={path}\n  signature: {ctx.pid}/runaway\n"
                                     f"check {ctx.pid} tier={ctx.tier} seed={ctx.seed} exit=1\n")
                    sys.stdout.flush()
                finally:
                    os._exit(1)
    t = threading.Thread(target=watch, daemon=True)
    t.start()


def finish(ctx, level="model_checking"):
    """Print verdict lines, write evidence, return exit code."""
    known = [k for k in load_known().get("known", []) if k["property"] == ctx.pid]
    known_sigs = {k["signature"]: k for k in known}
    hit = {}
    new = {}
    for v in ctx.violations:
        if v["signature"] in known_sigs:
            hit[v["signature"]] = hit.get(v["signature"], 0) + 1
        else:
            new.setdefault(v["signature"], []).append(v)
    for k in known:
        n = hit.get(k["signature"], 0)
        print(f"KNOWN-FINDING: property={ctx.pid} {k['what']} [signature={k['signature']}; "
              f"{'reproduced %d time(s) in this run' % n if n else 'not reached by this run'}]")
    rdir = os.path.join(VERIF, "replays", ctx.pid)
    for sig, vs in new.items():
        os.makedirs(rdir, exist_ok=True)
        h = hashlib.sha1(sig.encode()).hexdigest()[:10]
        path = os.path.join(rdir, f"{h}.json")
        with open(path, "w") as f:
            json.dump({"property": ctx.pid, "signature": sig, "count": len(vs), "detail": vs[0]["detail"],
                       "replay": vs[0]["replay"]}, f, indent=1, default=repr)
        print(f"VIOLATION property={ctx.pid} replay={path}")
        print(f"  signature: {sig}  ({len(vs)} case(s))")
        print(f"  detail: {str(vs[0]['detail'])[:600]}")
    cov = {
        "states": ctx.states,
        "transitions": ctx.transitions,
        "traces_validated_against_impl": ctx.traces,
        "samples": ctx.samples or [{"note": "no sample recorded"}],
        "evaluations": ctx.evaluations,
        "distinct_nontrivial": len(ctx.distinct),
        "rule": ctx.rule,
        "exhaustive": ctx.exhaustive,
        "tlc_runs": ctx.tlc_runs,
        "known_findings_reproduced": hit,
    }
    cov.update(ctx.extra)
    ev = {
        "property_id": ctx.pid,
        "tier": ctx.tier,
        "seed": ctx.seed,
        "level": level,
        "coverage": cov,
        "assumptions": ctx.assumptions,
        "wall_s": round(time.time() - ctx.t0, 2),
        "violations": sum(len(v) for v in new.values()),
    }
    os.makedirs(os.path.join(VERIF, "evidence"), exist_ok=True)
    with open(os.path.join(VERIF, "evidence", f"{ctx.pid}.json"), "w") as f:
        json.dump(ev, f, indent=1, default=repr)
    if new:
        return 1
    if getattr(ctx, "vacuous", None):
        raise MachineryError("vacuity: " + "; ".join(ctx.vacuous))
    return 0


# ---------------------------------------------------------------- JSON for TLC
def tlc_safe(obj, path="$"):
    """Validate that obj can go through TLC's Json module unharmed (see DESIGN 3.3): no null, no floats,
    integers within +-2^30, no empty-key dicts. Raises MachineryError otherwise."""
    if obj is None:
        raise MachineryError(f"null at {path}")
    if isinstance(obj, bool) or isinstance(obj, str):
        return
    if isinstance(obj, int):
        if abs(obj) > 2 ** 30:
            raise MachineryError(f"integer {obj} too large for TLC at {path}")
        return
    if isinstance(obj, float):
        raise MachineryError(f"float at {path}")
    if isinstance(obj, (list, tuple)):
        for i, x in enumerate(obj):
            tlc_safe(x, f"{path}[{i}]")
        return
    if isinstance(obj, dict):
        for k, v in obj.items():
            if not isinstance(k, str):
                raise MachineryError(f"non-string key at {path}")
            tlc_safe(v, f"{path}.{k}")
        return
    raise MachineryError(f"unsupported type {type(obj)} at {path}")


def write_ndjson(path, rows):
    with open(path, "w") as f:
        for r in rows:
            tlc_safe(r)
            f.write(json.dumps(r, separators=(",", ":")) + "\n")


def parse_printed(line):
    """Parse a TLC PrintT line <<"TAG", a, "json...">> into a Python list (strings / ints / bools)."""
    from harness.tlaval import parse_value
    return parse_value(line)
