"""Projection of a library definition object (public attributes only) to a normal form, and the same normal form computed
directly from an abstract definition.  P(load(render(D))) must equal N(D); C09/C15/C16/C17 compare projections."""
from fractions import Fraction


def _fr(x):
    f = Fraction(x)
    return [f.numerator, f.denominator]


def _frr(r):
    f = Fraction(r["num"], r["den"])
    return [f.numerator, f.denominator]


ORD = {"mostSignificantByteFirst": "msb", "leastSignificantByteFirst": "lsb", None: "msb"}


# ------------------------------------------------------------------------------------------- from objects
def p_crit(c):
    from space_packet_parser.xtce import comparisons as C
    if isinstance(c, C.Comparison):
        return ["cmp", c.referenced_parameter, c.operator, bool(c.use_calibrated_value), str(c.required_value)]
    if isinstance(c, C.BooleanExpression):
        return ["bool", p_bexpr(c.expression)]
    if isinstance(c, C.Condition):
        return p_bexpr(c)
    return ["?", repr(c)]


def p_bexpr(e):
    from space_packet_parser.xtce import comparisons as C
    if isinstance(e, C.Condition):
        if e.right_param is not None:
            return ["cond", e.left_param, bool(e.left_use_calibrated_value), e.operator, "param", e.right_param, bool(e.right_use_calibrated_value)]
        return ["cond", e.left_param, bool(e.left_use_calibrated_value), e.operator, "lit", str(e.right_value)]
    if isinstance(e, C.Anded):
        return ["and", [p_bexpr(c) for c in e.conditions], [p_bexpr(g) for g in e.ors]]
    if isinstance(e, C.Ored):
        return ["or", [p_bexpr(c) for c in e.conditions], [p_bexpr(g) for g in e.ands]]
    return ["?", repr(e)]


def p_cal(c):
    from space_packet_parser.xtce import calibrators as K
    if c is None:
        return ["none"]
    if isinstance(c, K.PolynomialCalibrator):
        # a polynomial is the sum of its terms: the order in which they are listed carries no meaning
        return ["poly", sorted([[_fr(t.coefficient), int(t.exponent)] for t in c.coefficients], key=lambda t: (t[1], t[0]))]
    if isinstance(c, K.SplineCalibrator):
        return ["spline", int(c.order), bool(c.extrapolate), [[_fr(p.raw), _fr(p.calibrated)] for p in c.points]]
    return ["?", repr(c)]


def p_calset(enc):
    ctx = []
    for cc in (enc.context_calibrators or []):
        ctx.append([[p_crit(m) for m in cc.match_criteria], p_cal(cc.calibrator)])
    return {"default": p_cal(enc.default_calibrator), "context": ctx}


def p_adjuster(f):
    if f is None:
        return ["none"]
    try:
        b = f(0)
        m = f(1) - b
        ok = f(3) == 3 * m + b
        return ["lin", int(m), int(b)] if ok else ["nonlinear"]
    except Exception as e:  # noqa: BLE001
        return ["adjuster-error", type(e).__name__]


def p_lookup(lst):
    return [[[p_crit(m) for m in dl.match_criteria], _fr(dl.lookup_value)] for dl in lst]


def p_encoding(e):
    from space_packet_parser.xtce import encodings as E
    if isinstance(e, E.IntegerDataEncoding):
        return {"k": "int", "w": int(e.size_in_bits), "enc": e.encoding, "order": ORD.get(e.byte_order, e.byte_order), "cal": p_calset(e)}
    if isinstance(e, E.FloatDataEncoding):
        fmt = {"IEEE754": "ieee", "IEEE754_1985": "ieee", "MILSTD_1750A": "mil1750a"}.get(e.encoding, e.encoding)
        return {"k": "flt", "w": int(e.size_in_bits), "fmt": fmt, "order": ORD.get(e.byte_order, e.byte_order), "cal": p_calset(e)}
    if isinstance(e, E.BinaryDataEncoding):
        if e.fixed_size_in_bits is not None:
            ls = ["fixed", int(e.fixed_size_in_bits)]
        elif e.size_reference_parameter is not None:
            ls = ["dyn", e.size_reference_parameter, bool(e.use_calibrated_value), p_adjuster(e.linear_adjuster)]
        elif e.size_discrete_lookup_list is not None:
            ls = ["lookup", p_lookup(e.size_discrete_lookup_list)]
        else:
            ls = ["?"]
        return {"k": "bin", "len": ls}
    if isinstance(e, E.StringDataEncoding):
        if e.fixed_length:
            ls = ["fixed", int(e.fixed_length)]
        elif e.dynamic_length_reference:
            ls = ["dyn", e.dynamic_length_reference, bool(e.use_calibrated_value), p_adjuster(e.length_linear_adjuster)]
        elif e.discrete_lookup_length:
            ls = ["lookup", p_lookup(e.discrete_lookup_length)]
        else:
            ls = ["?"]
        if e.leading_length_size:
            dl = ["lead", int(e.leading_length_size)]
        elif e.termination_character:
            dl = ["term", list(e.termination_character)]
        else:
            dl = ["whole"]
        return {"k": "str", "codec": e.encoding, "len": ls, "delim": dl}
    return {"k": "?", "repr": repr(e)}


def p_type(t):
    from space_packet_parser.xtce import parameter_types as T
    kind = {T.IntegerParameterType: "int", T.FloatParameterType: "float", T.EnumeratedParameterType: "enum", T.BooleanParameterType: "bool",
            T.BinaryParameterType: "bin", T.StringParameterType: "str", T.AbsoluteTimeParameterType: "abstime",
            T.RelativeTimeParameterType: "reltime"}.get(type(t), type(t).__name__)
    out = {"kind": kind, "unit": t.unit or "", "enc": p_encoding(t.encoding)}
    if kind == "enum":
        out["enum"] = [[_enum_key(k), v] for k, v in t.enumeration.items()]
    if kind in ("abstime", "reltime"):
        out["epoch"] = t.epoch or ""
        out["offsetFrom"] = t.offset_from or ""
    return out


def _enum_key(k):
    if isinstance(k, bytes):
        return ["bytes", list(k)]
    return ["num", _fr(k)]


def project(defn):
    """XtcePacketDefinition -> normal form"""
    from space_packet_parser.xtce import containers as CT
    out = {"types": {}, "torder": list(defn.parameter_types), "params": {}, "porder": list(defn.parameters), "containers": {},
           "corder": list(defn.containers)}
    for n, t in defn.parameter_types.items():
        out["types"][n] = dict(p_type(t), name=t.name)
    for n, p in defn.parameters.items():
        out["params"][n] = {"name": p.name, "type": p.parameter_type.name, "short": p.short_description or "", "long": p.long_description or ""}
    for n, c in defn.containers.items():
        out["containers"][n] = {"name": c.name, "abstract": bool(c.abstract), "base": c.base_container_name or "",
                                "crit": [p_crit(x) for x in (c.restriction_criteria or [])],
                                "entries": [["c", e.name] if isinstance(e, CT.SequenceContainer) else ["p", e.name] for e in c.entry_list],
                                "short": c.short_description or "", "long": c.long_description or "",
                                "inheritors": sorted(c.inheritors or [])}
    return out


# ----------------------------------------------------------------------------------- from abstract definitions
def n_crit(c):
    if c["k"] == "cmp":
        return ["cmp", c["ref"], c["op"], bool(c["cal"]), c["lit"]["txt"]]
    return ["bool", n_bexpr(c)]


def n_bexpr(e):
    if e["k"] == "cond":
        if e["rk"] == "param":
            return ["cond", e["l"], bool(e["lcal"]), e["op"], "param", e["r"], bool(e["rcal"])]
        return ["cond", e["l"], bool(e["lcal"]), e["op"], "lit", e["lit"]["txt"]]
    return [e["k"], [n_bexpr(c) for c in e["conds"]], [n_bexpr(g) for g in e["groups"]]]


def n_cal(c):
    if c["k"] == "none":
        return ["none"]
    if c["k"] == "poly":
        return ["poly", sorted([[_frr(t["c"]), t["e"]] for t in c["terms"]], key=lambda t: (t[1], t[0]))]
    pts = sorted([[_frr(p["x"]), _frr(p["y"])] for p in c["pts"]], key=lambda p: Fraction(p[0][0], p[0][1]))
    return ["spline", c["order"], bool(c["extrap"]), pts]


def n_calset(cs):
    return {"default": n_cal(cs["default"]), "context": [[[n_crit(x) for x in cc["crit"]], n_cal(cc["cal"])] for cc in cs["context"]]}


def n_len(ls):
    if ls["k"] == "fixed":
        return ["fixed", ls["n"]]
    if ls["k"] == "dyn":
        return ["dyn", ls["ref"], bool(ls["cal"]), ["lin", ls["slope"], ls["icpt"]] if ls["adj"] else ["none"]]
    return ["lookup", [[[n_crit(c) for c in en["items"]], [en["val"], 1]] for en in ls["entries"]]]


def n_type(name, pt, time_default_from_encoding=True):
    k = pt["kind"]
    if k in ("bin", "str"):
        sb = pt["sb"]
        if k == "bin":
            enc = {"k": "bin", "len": n_len(sb["len"])}
        else:
            d = sb["delim"]
            dl = ["lead", d["tag"]] if d["k"] == "lead" else ["term", list(d["tc"])] if d["k"] == "term" else ["whole"]
            enc = {"k": "str", "codec": sb["codec"], "len": n_len(sb["len"]), "delim": dl}
        return {"kind": k, "unit": pt.get("unit", ""), "enc": enc, "name": name}
    e = pt["enc"]
    if e["k"] == "int":
        enc = {"k": "int", "w": e["w"], "enc": e["enc"], "order": e.get("order", "msb"), "cal": n_calset(pt["cal"])}
    else:
        enc = {"k": "flt", "w": e["w"], "fmt": e.get("fmt", "ieee"), "order": e.get("order", "msb"), "cal": n_calset(pt["cal"])}
    out = {"kind": k, "unit": pt.get("unit", ""), "enc": enc, "name": name}
    if k == "enum":
        out["enum"] = [[["num", _fr_tv(en["raw"])], en["label"]] for en in pt["enum"]]
    if k in ("abstime", "reltime"):
        out["epoch"] = pt.get("epoch", "")
        out["offsetFrom"] = pt.get("offsetFrom", "")
    return out


def _fr_tv(tv):
    if tv["t"] == "int":
        return [tv["n"], 1]
    f = Fraction(tv["num"], tv["den"])
    return [f.numerator, f.denominator]


def reach_order(d):
    """Order in which the library's caches are filled for a definition built from a container list in d['corder'] order:
    container, then its entries depth-first (parameters and nested containers)."""
    corder, porder, torder = [], [], []

    def visit(cn):
        if cn in corder:
            corder.remove(cn)           # dict re-insertion keeps the FIRST position in Python; emulate: keep first
            corder.insert(_first[cn], cn)
            return
        _first[cn] = len(corder)
        corder.append(cn)
        for e in d["containers"][cn]["entries"]:
            if e["k"] == "c":
                visit(e["n"])
            else:
                if e["n"] not in porder:
                    porder.append(e["n"])
                t = d["params"][e["n"]]["type"]
                if t not in torder:
                    torder.append(t)
    _first = {}
    for cn in d["corder"]:
        visit(cn)
    return corder, porder, torder


def normal(d, orders=None):
    """abstract definition -> normal form (what project() must give for a correct load / build)."""
    out = {"types": {}, "params": {}, "containers": {}}
    for n, pt in d["types"].items():
        out["types"][n] = n_type(n, pt)
    for n, p in d["params"].items():
        out["params"][n] = {"name": n, "type": p["type"], "short": p.get("short", ""), "long": p.get("long", "")}
    for n, c in d["containers"].items():
        out["containers"][n] = {"name": n, "abstract": bool(c["abstract"]), "base": c["base"], "crit": [n_crit(x) for x in c["crit"]],
                                "entries": [[e["k"], e["n"]] for e in c["entries"]], "short": c.get("short", ""), "long": c.get("long", ""),
                                "inheritors": sorted(k for k in d["containers"] if d["containers"][k]["base"] == n)}
    return out


def same_content(p, n):
    """Compare a projection with a normal form ignoring cache orders and restricting to the names the definition reaches."""
    diffs = []
    for sect in ("types", "params", "containers"):
        for name, v in p[sect].items():
            if name not in n[sect]:
                diffs.append(f"{sect}.{name}: not in the document")
            elif v != n[sect][name]:
                a, b = v, n[sect][name]
                keys = [k for k in set(a) | set(b) if a.get(k) != b.get(k)]
                diffs.append(f"{sect}.{name}: differs in {keys}: loaded {[a.get(k) for k in keys]} expected {[b.get(k) for k in keys]}")
    return diffs


def reachable(d):
    """names of containers / params / types reachable from d['corder'] containers through entry lists"""
    cs, ps, ts = set(), set(), set()

    def visit(cn):
        if cn in cs:
            return
        cs.add(cn)
        for e in d["containers"][cn]["entries"]:
            if e["k"] == "c":
                visit(e["n"])
            else:
                ps.add(e["n"])
                ts.add(d["params"][e["n"]]["type"])
    for cn in d["corder"]:
        visit(cn)
    return cs, ps, ts


def deep_state(obj, _seen=None, _depth=0):
    """Canonical snapshot of everything reachable from `obj` through public attributes and containers (names starting with '_'
    are private caches and left out; callables, modules and XML elements are not state).  Used by C15: writing a definition must
    leave this snapshot unchanged."""
    import enum
    import types
    if _seen is None:
        _seen = {}
    if obj is None or isinstance(obj, (bool, int, str, bytes)):
        return repr(obj)
    if isinstance(obj, float):
        return "f:" + repr(obj)
    if isinstance(obj, enum.Enum):
        return f"E:{type(obj).__name__}.{obj.name}"
    if id(obj) in _seen:
        return f"@{_seen[id(obj)]}"
    if _depth > 200:
        return "..."
    if isinstance(obj, dict):
        _seen[id(obj)] = len(_seen)
        return ["D"] + [[deep_state(k, _seen, _depth + 1), deep_state(v, _seen, _depth + 1)] for k, v in obj.items()]
    if isinstance(obj, (list, tuple)) and not hasattr(obj, "__dict__"):
        _seen[id(obj)] = len(_seen)
        fields = getattr(obj, "_fields", None)
        return ["L", type(obj).__name__ if fields else ""] + [deep_state(v, _seen, _depth + 1) for v in obj]
    if isinstance(obj, (set, frozenset)):
        return ["S"] + sorted(json_key(deep_state(v, _seen, _depth + 1)) for v in obj)
    if callable(obj) or isinstance(obj, types.ModuleType) or type(obj).__module__.startswith("lxml"):
        return "<skip>"
    d = getattr(obj, "__dict__", None)
    if d is None:
        slots = [s for c in type(obj).__mro__ for s in getattr(c, "__slots__", ())]
        if not slots:
            return "<opaque " + type(obj).__name__ + ">"
        d = {s: getattr(obj, s) for s in slots if hasattr(obj, s)}
    _seen[id(obj)] = len(_seen)
    out = ["O", type(obj).__name__]
    if isinstance(obj, (list, tuple)):
        out.append(["items"] + [deep_state(v, _seen, _depth + 1) for v in obj])
    for k in sorted(d):
        if not k.startswith("_"):
            out.append([k, deep_state(d[k], _seen, _depth + 1)])
    return out


def json_key(x):
    import json
    return json.dumps(x, sort_keys=True, default=str)


def state_diff(a, b, path="definition"):
    """first place where two deep_state snapshots differ (text)"""
    if type(a) is not type(b):
        return f"{path}: {str(a)[:80]} -> {str(b)[:80]}"
    if isinstance(a, list):
        if len(a) != len(b):
            return f"{path}: {len(a)} entries -> {len(b)}"
        for i, (x, y) in enumerate(zip(a, b)):
            if x != y:
                name = x[0] if isinstance(x, list) and x and isinstance(x[0], str) and len(x) == 2 else str(i)
                return state_diff(x, y, f"{path}.{name}")
        return None
    return None if a == b else f"{path}: {str(a)[:80]} -> {str(b)[:80]}"
