"""Typed values exchanged with TLC (DESIGN appendix A.1): exact, integer-only JSON."""
import math


def bits_of(v):
    return [int(c) for c in bin(v)[2:]] if v else []


def t_int(v):
    return {"t": "int", "neg": v < 0, "mag": bits_of(abs(int(v)))}


def t_float(x):
    if math.isnan(x):
        return {"t": "flt", "cls": "nan", "neg": False, "sig": [], "exp": 0}
    neg = math.copysign(1.0, x) < 0
    if math.isinf(x):
        return {"t": "flt", "cls": "inf", "neg": neg, "sig": [], "exp": 0}
    if x == 0:
        return {"t": "flt", "cls": "zero", "neg": neg, "sig": [], "exp": 0}
    num, den = abs(x).as_integer_ratio()
    tz = (num & -num).bit_length() - 1
    return {"t": "flt", "cls": "fin", "neg": neg, "sig": bits_of(num >> tz), "exp": tz - (den.bit_length() - 1)}


def to_typed(v):
    if isinstance(v, bool):
        return {"t": "bool", "b": v}
    if isinstance(v, float):
        return t_float(v)
    if isinstance(v, int):
        return t_int(v)
    if isinstance(v, (bytes, bytearray)):
        return {"t": "bin", "bytes": list(v)}
    if isinstance(v, str):
        return {"t": "str", "bytes": list(v.encode("utf-8", "surrogatepass"))}
    raise TypeError(type(v))


def from_typed(t):
    if t["t"] == "int":
        m = int("".join(map(str, t["mag"])) or "0", 2)
        return -m if t["neg"] else m
    if t["t"] == "flt":
        if t["cls"] == "nan":
            return float("nan")
        s = -1.0 if t["neg"] else 1.0
        if t["cls"] == "inf":
            return s * float("inf")
        if t["cls"] == "zero":
            return s * 0.0
        return s * math.ldexp(int("".join(map(str, t["sig"])), 2), t["exp"])
    raise ValueError(t)


def same(a, b):
    if a["t"] != b["t"]:
        return False
    if a["t"] == "int":
        return a["neg"] == b["neg"] and a["mag"] == b["mag"]
    if a["t"] == "flt":
        if a["cls"] != b["cls"]:
            return False
        if a["cls"] == "nan":
            return True
        if a["neg"] != b["neg"]:
            return False
        return a["cls"] != "fin" or (a["sig"] == b["sig"] and a["exp"] == b["exp"])
    return a == b


def cls_name(v):
    return {"IntParameter": "Int", "FloatParameter": "Float", "StrParameter": "Str", "BinaryParameter": "Binary",
            "BoolParameter": "Bool"}.get(type(v).__name__, type(v).__name__)
