"""Binding demonstration: each trace specification accepts an untampered recording of the real code and rejects the same
recording after (i) one logged field is flipped, (ii) one event is deleted, (iii) two events are swapped.
Run:  /venv/bin/python check.py selftest      (exit 0 iff every expectation holds)"""
import copy
import json
import os
import random

from harness import core, defs, framer_io, gendefs, xdoc
from harness.props import c12, decode_common as dc, framer_common as fc


def main():
    core.bind_repo()
    ctx = core.Ctx("SELFTEST", "quick", 0)
    rng = random.Random(7)
    results = []

    def expect(name, got, want):
        ok = got == want
        results.append((name, ok, got, want))
        print(("ok   " if ok else "FAIL ") + f"{name}: {got} (expected {want})")
    try:
        # ---------------- Trace_Framer
        data = b"".join(defs.mk_packet(bytes(range(n)), apid=n) for n in (3, 9, 5))
        ev, items, outcome = framer_io.run_framer(data, "file", 7, 0, max_items=10)
        base = (data, "file", 7, 0, ev, {"label": "selftest", "items": items, "outcome": outcome})

        def verdict(run):
            c2 = core.Ctx("SELFTEST", "quick", 0)
            c2.work = ctx.work
            v = fc.validate_traces(c2, "SELFTEST", [run], f"st{len(results)}")
            return v[1][0], len(c2.violations)
        expect("framer/untampered", verdict(base)[0], "ACCEPT")
        iface = [i for i, e in enumerate(ev) if e["ev"] == "yield"]
        reads = [i for i, e in enumerate(ev) if e["ev"] == "read" and e["got"] > 0]
        t = copy.deepcopy(ev)
        t[iface[1]]["n"] += 1
        expect("framer/field-flipped (yield length +1)", verdict((data, "file", 7, 0, t, base[5]))[0], "REJECT")
        t = copy.deepcopy(ev)
        del t[reads[1]]
        expect("framer/event-deleted (one read)", verdict((data, "file", 7, 0, t, base[5]))[0], "REJECT")
        t = copy.deepcopy(ev)
        i, j = reads[0], iface[0]
        t[i], t[j] = t[j], t[i]
        expect("framer/events-swapped (first yield before first read)", verdict((data, "file", 7, 0, t, base[5]))[0], "REJECT")
        # content tamper: same lengths, wrong bytes in a yielded item
        c2 = core.Ctx("SELFTEST", "quick", 0)
        c2.work = ctx.work
        bad_items = [bytes(items[0])] + [bytes([x ^ 1 for x in bytes(items[1])])] + [bytes(items[2])]
        fc.validate_traces(c2, "SELFTEST", [(data, "file", 7, 0, ev, {"label": "x", "items": bad_items, "outcome": outcome})], "stc")
        expect("framer/content-flipped (one byte of a yielded packet)", len(c2.violations), 1)

        # ---------------- Trace_Segments
        d = defs.header_only_definition()
        hist = [(100, 1, 5), (100, 0, 6), (200, 3, 0), (100, 2, 7), (100, 2, 8)]
        outs, wk, problems = c12.run_history(d, hist, 2)
        ngap, nno = wk["gap"], wk["nostart"]

        def seg_verdict(o, g, n):
            path = os.path.join(ctx.work, "st-seg.ndjson")
            core.write_ndjson(path, [{"tid": 1, "pk": [list(h) for h in hist], "outs": o, "gaps": g, "nostarts": n, "other": 0, "k": 2}])
            cfg = c12.cfg(ctx, "st-seg.cfg", None, 1000, [100, 200], [0], ["TraceInv"], init=("TraceInit", "TraceNext"))
            r = ctx.tlc_expect_ok("Trace_Segments", cfg, workers=1, env={"TRACE_FILE": path}, count=False)
            return core.parse_printed(r.printed[0])[0]
        expect("segments/untampered", seg_verdict(outs, ngap, nno), "ACCEPT")
        expect("segments/field-flipped (one contributor id)", seg_verdict([[1, 2, 5]] + outs[1:] if outs and len(outs[0]) == 3 else [[9]], ngap, nno), "REJECT")
        expect("segments/event-deleted (one output)", seg_verdict(outs[:-1], ngap, nno), "REJECT")
        expect("segments/events-swapped (two outputs)", seg_verdict(list(reversed(outs)), ngap, nno), "REJECT")
        expect("segments/warning-count-flipped", seg_verdict(outs, ngap, nno + 1), "REJECT")
        expect("segments/warning-kind-flipped", seg_verdict(outs, ngap + 1, nno - 1), "REJECT")

        # ---------------- Trace_Decode
        g = gendefs.DefGen(rng, rich=False).build()
        dobj = xdoc.build(g.d)
        pk = None
        for _ in range(200):
            cand = g.packet(mutate=False)
            o = xdoc.observe_packet(dobj, g.d, cand)
            if o["outcome"] == "ok" and len(o["items"]) >= 9:
                pk, obs = cand, o
                break
        if pk is None:
            raise core.MachineryError("selftest: no decodable packet")

        def dec_verdict(o):
            o = dict(o, gen=dc.NOGEN)
            path = os.path.join(ctx.work, "st-dec.ndjson")
            core.write_ndjson(path, [{"defn": g.d, "pkts": [list(pk)], "obs": [{k: o[k] for k in ("outcome", "items", "pos", "hdrn", "udn", "gen")}]}])
            r = ctx.tlc("Trace_Decode", "Trace_Decode.cfg", workers=1, env={"TRACE_FILE": path}, count=False)
            v = core.parse_printed(r.printed[0])
            return v[0] + (":" + v[3] if v[0] == "REJECT" else "")
        base_v = dec_verdict(obs)
        expect("decode/untampered", base_v, "ACCEPT" if True else "")
        if base_v == "ACCEPT":
            t = copy.deepcopy(obs)
            it = next(i for i in t["items"] if i["val"].get("t") == "int")
            it["val"]["neg"] = not it["val"]["neg"] if it["val"]["mag"] else it["val"]["neg"]
            if not it["val"]["mag"]:
                it["val"]["mag"] = [1]
            expect("decode/field-flipped (one value)", dec_verdict(t), "REJECT:item-values")
            t = copy.deepcopy(obs)
            del t["items"][8]
            t["udn"] = [n for n in t["udn"] if n != obs["items"][8]["name"]]
            expect("decode/event-deleted (one item)", dec_verdict(t), "REJECT:item-names-or-order")
            t = copy.deepcopy(obs)
            t["items"][7], t["items"][8] = t["items"][8], t["items"][7]
            expect("decode/events-swapped (two items)", dec_verdict(t), "REJECT:item-names-or-order")
            t = copy.deepcopy(obs)
            t["pos"] += 1
            expect("decode/cursor-flipped", dec_verdict(t), "REJECT:cursor")
    finally:
        ctx.cleanup()
    bad = [r for r in results if not r[1]]
    print(f"selftest: {len(results) - len(bad)}/{len(results)} expectations hold")
    return 1 if bad else 0
