"""Single source for MANIFEST.json: which properties are claimed, at what level, with which note."""

TRUSTED = ("TLC/SANY 1.8 and CommunityModules Json/IOUtils; the harness's drivers, projection and replay code; "
           "CPython's io/socket/struct/codecs where named; bounded exploration: exhaustive only up to the stated "
           "constants, seeded-random beyond them.")

CHECKS = {
    "C02": dict(
        text=("Framer.tla (one action per branch of ccsds_generator's loop) is model-checked exhaustively by TLC over all small "
              "well-formed streams x prefix lengths x source kinds x read sizes x every socket fragmentation, with invariants "
              "OutIsPrefix/AccountingExact/DoneExact and liveness. Bound to the code both ways: an edge cover of TLC's dumped "
              "state graph is replayed into the real generator (bytes, BytesIO, real file, scripted socket), and executions of "
              "the real generator on random/boundary/21 MB/mission streams are traced (hooks + instrumented sources) and "
              "validated against the same actions by Trace_Framer. Real OS file objects of ten flavours are compared with the validated "
              "in-memory run; a 65 MB stream exercises repeated buffer trims."),
        note="Stream contents are abstracted to the window of the source (byte identity checked by slicing the input at the "
             "offsets the model emits). " + TRUSTED,
        technique="TLA+ state-machine spec + TLC exhaustive BFS; edge-cover replay (spec->code) and trace validation (code->spec)",
        design="5 C02"),
    "C10": dict(
        text=("Same Framer.tla with fault inputs: every prefix of every small well-formed stream, all short garbage strings, "
              "closed sockets; TLC checks OnlyComplete/DoneExact/NoCrash and termination under weak fairness; the pinned "
              "tree's behaviour is kept as AsIs_* actions whose config must violate the invariants. Edge-cover replay with an "
              "item budget (a hang is a verdict) and trace validation of random truncated/garbage sources. Real OS file objects (incl. "
              "read/write handles with pending or partly flushed writes, compressed files) and show_progress=True on every source kind "
              "(empty, truncated, early close) are compared with the validated runs."),
        note="Termination of the real code is observed under an item budget per run, not proved. " + TRUSTED,
        technique="TLA+ state-machine spec + TLC (safety + liveness under WF); fault-point enumeration by model; trace validation",
        design="5 C10"),
}

CHECKS["C12"] = dict(
    text=("Segments.tla (one action per branch of the flag-driven reassembly chain, history-free state: per-APID open group, "
          "used ids, last output, last warning) is model-checked by TLC over every history up to the length bound over 2 APIDs x "
          "4 flags x real 14-bit counts around the wrap; the pinned tree's behaviour (group left in place after LAST) is kept "
          "as AsIs and must violate OpenUnused. Every history of length 3 and simulated histories of depth 12 are replayed "
          "through the real packet_generator (outputs identified by payload bytes, three secondary-header lengths), and random "
          "long multi-APID histories run on the real generator are validated against the same Step action by Trace_Segments. "
          "Half of the replayed histories run under options that change what is delivered but not the reassembly (parse_bad_pkts=False, "
          "a definition not recognising one APID with / without error reporting). Thorough tier: Apalache shows the invariants "
          "(strengthened by OpenDisjoint, Fresh, OpenAscending) inductive for histories of any length (Ind_Segments.tla), and TLC that "
          "the annotated module refines Segments.tla. A quarter of the replayed histories has later segments without user data."),
    note="Warnings are compared as per-history counts of the two warning kinds. " + TRUSTED,
    technique="TLA+ state-machine spec + TLC exhaustive histories; behaviour export (BFS + simulation) replayed into code; trace validation; Apalache inductive invariant (thorough)",
    design="5 C12")

CHECKS["C03"] = dict(
    text=("Cursor.tla transcribes both code paths of read_as_int / read_as_bytes / _extract_bits (byte window, big-endian value, "
          "shift, mask; aligned fast path) as actions and states C03 declaratively on the bit sequence; TLC checks them equal on "
          "every 3-byte buffer over a 5-symbol alphabet x every (p, n) x both reads. Every row of that table is replayed on "
          "RawPacketData, and real reads on random buffers up to 4 kB / thousands of bits are logged and re-evaluated by "
          "Trace_Cursor (bit-sequence semantics, no 32-bit limit)."),
    note="Only in-bounds reads (p+n <= 8*len) are claimed, as the property states; out-of-bounds behaviour belongs to C14. " + TRUSTED,
    technique="TLA+ transcription of the case analysis, TLC exhaustive table + replay; logged calls re-evaluated by TLC",
    design="5 C03")
CHECKS["C13"] = dict(
    text=("Header.tla defines Pack/Unpack/Valid and the create/reject/access steps; TLC checks RoundTrip, PackUnpack and "
          "NothingBuiltWhenInvalid over all 2^16 values of each header word and over the boundary lattice {-1,min,mid,max,max+1}^6 "
          "x 9 data lengths. The lattice is exported and replayed on create_ccsds_packet, the accessors and the framer; the real "
          "functions are run on all 3 x 65536 word values (thorough; every 5th in quick), random field vectors and random framed "
          "packets, each call logged and re-evaluated by Trace_Header. Re-framing also goes through a file object read in pieces of 1..7 bytes."),
    note="Non-integer arguments (TypeError path) are outside the property. " + TRUSTED,
    technique="TLA+ spec of the header layout, TLC exhaustive per word + boundary lattice; replay and logged-call validation",
    design="5 C13")

CHECKS["C04"] = dict(
    text=("Numeric.tla defines integer (unsigned / two's complement, byte order), IEEE-754 binary16/32/64 and MIL-STD-1750A decoding "
          "on bit sequences with exact typed results (sign-magnitude bits; class/sign/odd significand/exponent). TLC enumerates "
          "every pattern of integer widths 1..10 and all 65536 binary16 patterns in both byte orders and cross-checks the bit-level "
          "operators against plain arithmetic and the IEEE class table; boundary patterns of wide integers, binary32/64 and 1750A "
          "are exported too. Every exported row is decoded by the real parse_value at several bit offsets; random wide patterns "
          "decoded by the real code are logged and re-evaluated by Trace_Numeric. A share of all cases uses encodings that also declare context calibrators none of which applies (still uncalibrated); one type object per layout decodes all its cases. Float encodings are also built with the tolerated legacy spellings IEEE-754 / MIL-1750A."),
    note="Byte order is claimed for whole-byte widths only; NaN payloads are not compared. " + TRUSTED,
    technique="TLA+ transcription of the decoders, TLC exhaustive small-width tables + replay; logged decodes re-evaluated by TLC",
    design="5 C04")

CHECKS["C06"] = dict(
    text=("Criteria.tla defines Comparison / ComparisonList / Condition / nested ANDed-ORed BooleanExpression / DiscreteLookup "
          "evaluation over typed values with three-valued (Kleene) truth, literal coercion to the operand's type and all operator "
          "spellings. TLC evaluates it on the exhaustive small space (relations x spellings x selectors x literals x boundary values "
          "incl. 0/False/negative/int-vs-float; every group shape up to the bound x all truth assignments; lookup orders) and on "
          "random trees, checks its own De Morgan duality on every boolean case, and compares with what the real classes returned "
          "when built through constructors and through XML with explicit and omitted defaults. One evaluator object per (expression, route) evaluates all its environments in shuffled order (history independence; the history is part of a replay). The enumerated comparisons are run again with every value and literal moved up by 2^53 / 2^63 / 2^64 on the real side (translation invariance); string values and literals with leading / trailing blanks are included."),
    note="Relations that are mathematically undefined (missing operand, literal not expressible in the operand's type, ordering of "
         "strings) accept any answer; values restricted to +-2^12 with dyadic fractions for exact 32-bit arithmetic. " + TRUSTED,
    technique="TLA+ transcription of the evaluation rules; TLC evaluates the exhaustive bounded case space and logged random cases against the real classes",
    design="5 C06")

CHECKS["C08"] = dict(
    text=("Calib.tla defines context-then-default-then-raw selection (criteria from Criteria.tla, evaluated with the current raw "
          "value), exact polynomial evaluation, order-0/1 splines over the CLOSED knot range with optional extrapolation and "
          "CalibrationError otherwise, float result class, enumeration / boolean derivation from the raw value, time-type "
          "scale/offset, and raw_value retention. TLC evaluates it on the exhaustive small space (every knot, both end points, "
          "midpoints, outside; precedence and fall-through of <= 3 context calibrators; enum/bool over calibrated encodings) and on "
          "random calibrator sets, and compares with the real ParameterType.parse_value built by constructors and from XML. One type object per (type, route) decodes all its cases in shuffled order (history independence). 64-bit enumerations and zero-order splines are decoded with listed values / knots at 2^53, 2^63, 2^64 on the real side; polynomials with repeated exponents and an empty enumeration label are included."),
    note="Oracle domain is the exact-dyadic sub-domain (coefficients, knots with power-of-two spacing, raw values); general decimal "
         "coefficients are not decided. " + TRUSTED,
    technique="TLA+ transcription with exact rational arithmetic; TLC evaluates the exhaustive bounded case space and logged random cases against the real classes",
    design="5 C08")

CHECKS["C07"] = dict(
    text=("StrBin.tla defines the computed buffer length (fixed / first-match lookup via Criteria.tla / referenced raw or calibrated "
          "value through a linear adjustment), binary extraction (left-padded), the raw string buffer (right-padded) and the text bytes "
          "for whole-buffer, termination-character (searched at code-unit boundaries) and leading-size delimiting, error outcomes and the "
          "cursor advance. TLC evaluates it on the enumerated small space (1..41-bit fields at offsets 0..7, reference values 0..5, three "
          "delimiters x three length specifications, 1- and 2-byte code units) and on random buffers up to 2 kB in every supported "
          "encoding, and compares with the real parse_value built by constructors and from XML. One type object per (encoding, route) decodes all its cases in sequence, and looked-up lengths are decoded for every ordered pair of reference values on one object (history independence). Lookups include zero-valued entries and entries whose first comparison holds while a later one fails."),
    note="Character codecs applied to the selected bytes are trusted; zero-length strings, non-integral/negative lengths and over-reads "
         "are outside the claimed domain; plain UTF-16/32 with a byteOrder attribute are not generated. " + TRUSTED,
    technique="TLA+ transcription of length computation and delimiting; TLC evaluates the bounded case space and logged random cases against the real classes",
    design="5 C07")

CHECKS["C05"] = dict(
    text=("Decode.tla models parse_ccsds_packet as a state machine (one action per decoded entry, nested-container enter/leave, end of "
          "entries, choice of the unique valid inheritor via Criteria.tla, concrete end, abstract dead end, ambiguity) over exact typed "
          "values; TLC runs it on every container forest of 2-3 containers (4: sampled/thorough) x abstract flags x nested placements x "
          "overlapping criteria x ALL packets, checking CursorIsSum / PathOK / ChosenSatisfied at every step, and on hand-shaped "
          "structures with a full header root. Each case is decoded by the real library (definitions built by constructors and loaded "
          "from XML in three spellings) and compared at the end of the walk: items, order, values, header/user-data views, partial "
          "data and outcome. Inheritance edges without RestrictionCriteria, boolean attribute values spelled True / TRUE, leaf-first and shared-instance object routes and sibling definitions built from the same container objects are part of the population."),
    note="Packets are at least 2 bytes (the unrecognized-packet report reads the APID from the raw header). Criteria with missing "
         "operands are undefined (any outcome accepted). " + TRUSTED,
    technique="TLA+ state-machine spec of the container walk checked by TLC on the exhaustive bounded space; end-state conformance against the real decoder",
    design="5 C05")

CHECKS["C14"] = dict(
    text=("The Decode.tla walk tracks the bit cursor and marks a walk 'poisoned' when a read is not inside the packet or has a negative "
          "computed width (CursorIsSum invariant at every step); Trace_Decode!GenClause classifies the end state (clean iff status ok and "
          "cursor = packet bits; otherwise flagged and withheld when bad packets are excluded, or an exception; poisoned never clean). TLC "
          "runs this on fixed and length-dependent layouts x well-formed packets shorter / equal / longer than the layout consumes x the "
          "length values that matter (incl. negative widths); each packet is run alone through the real packet_generator in both "
          "parse_bad_pkts modes and the observed (items, warning, exception) must match. Layouts include three-level inheritance chains ending on packet boundaries and little-endian integer tails."),
    note="After an out-of-bounds or negative-width read only 'not delivered clean' is demanded; garbage values are not compared. " + TRUSTED,
    technique="TLA+ state-machine spec of the walk with cursor accounting + classification; TLC on enumerated layouts x packets; end-state conformance against packet_generator",
    design="5 C14")
CHECKS["C11"] = dict(
    text=("Generator.tla models several generator objects over one definition (per-generator stream, options, next() = Advance/Finish); "
          "TLC explores ALL interleavings for 2-3 generators x streams of <= 3 packets over {exact, too long, variable, ambiguous, dead-end} "
          "x the 8 option combinations with invariants OutEqualsPerPacket / DoneMeansAll and action property NoCrossTalk; per-packet end "
          "states come from the Decode walk. An edge cover of the dumped graph is replayed on real generators sharing one definition "
          "(each next() compared with the model, with the single-packet parse, and warning counts), random long streams with random "
          "schedules are validated by Trace_Generator, and the definition's XML is compared before/after. Raw packet objects handed out by the framer, by a headers-only generator and inside yielded items are each parsed on their own twice and compared with the single-packet result. The definition carries overlapping context calibrators and a boolean-expression container so that any write to the definition during parsing shows."),
    note="Streams avoid packets whose decoding the specification does not decide (out-of-bounds reads, field errors). A segmented section composes "
         "Segments (reassembly), Decode and Generator for generators suspended in the middle of a group. " + TRUSTED,
    technique="TLA+ spec of generator interleavings, TLC exhaustive BFS; edge-cover replay (spec->code) and trace validation (code->spec)",
    design="5 C11")

CHECKS["C01"] = dict(
    text=("End-to-end: random definitions in the supported subset (header root, APID branches, 1-2 further inheritance levels, overlapping "
          "criteria, shared nested container, every field kind incl. calibrated / enumerated / boolean / time / dynamic-length binary and "
          "string fields) are loaded by the real library (constructors or XML in three spellings) and run on packets built by an "
          "untrusted steering encoder and then mutated; for every packet TLC runs the Decode.tla walk (which composes Numeric, StrBin, "
          "Calib and Criteria) with its step invariants and compares items, order, exact values, raw values, classes, views, outcome, "
          "cursor and the generator-level classification; the whole stream through packet_generator is compared with the per-packet "
          "results. Each stream is run again on the same definition object before, while and after a generator started with another root container (reuse independence). gendefs also generates booleans over calibrated encodings (Decode.tla decides them from the raw value)."),
    note="Bounded/random exploration of documents (seeded), not exhaustive; cases whose referenced values leave the exact small domain are "
         "undefined and accepted; character codecs trusted. The bundled / mission documents are read by an independent reader (harness/xread.py) and their recorded packets decoded (CTIM in the thorough tier only). " + TRUSTED,
    technique="TLA+ specification of the whole decode path evaluated by TLC on randomly generated documents and streams; end-state conformance against the real generator",
    design="5 C01")

CHECKS["C16"] = dict(
    text=("LoaderNs.tla models from_xtce's use of the process-wide namespace state (parse, set prefix, set map, lookups that read the "
          "GLOBAL state, finish) over requests [document, namespace convention, prefix, unrelated xsi declaration, fault]; TLC explores "
          "every history of <= 3 loads (invariant LookupSeesOwnDoc; action properties HistoryIndependent, FaultsFail). An edge cover of "
          "the dumped graph is replayed in one process with random comment / whitespace / default-omission placement, comparing after "
          "every load the outcome, the class-level namespace state and the projection of the loaded definition with the document's "
          "normal form; random histories of 12 loads incl. the bundled and mission documents are validated by Trace_LoaderNs. The model's second prefix is spelled in 11 ways (capitals shared with element names, digits, '-', '.', '_'). One document contains every element kind; comments are also placed between siblings; the fault class 'no prefix passed for a prefixed document' is part of LoaderNs.tla."),
    note="Equality of definitions is judged by the harness's projection (project.py); file documents are compared with their own first "
         "load. " + TRUSTED,
    technique="TLA+ state-machine spec of the loader's namespace state, TLC exhaustive histories; edge-cover replay and trace validation of load histories",
    design="5 C16")

CHECKS["C17"] = dict(
    text=("LoaderRes.tla models from_xtce's three passes with the recursive container descent (base, then nested references) as an "
          "explicit stack, the lookup that is mutated on the way, duplicate rules per pass, the exactly-one by-name element search and "
          "inheritor back-population, with objects identified by allocation index so that identity is expressible. TLC runs it on every "
          "acyclic base/nesting structure over 2-3 containers (4: sampled) in several document orders and on every single-point "
          "corruption of each, checking ReferencesShareIdentity, InheritorsExact and BrokenRejected in every state; each document is "
          "loaded by the real from_xtce and outcome, entry lists, `is`-identity of every reference and inheritor lists are compared. Corruptions include a parameter repeated verbatim."),
    note="Any exception (incl. RecursionError for cycles) counts as rejection; references made from criteria / length specifications are "
         "outside the claim. " + TRUSTED,
    technique="TLA+ state-machine spec of the loader's resolution algorithm, TLC on enumerated documents and corruptions; end-state conformance against from_xtce",
    design="5 C17")
CHECKS["C15"] = dict(
    text=("RoundTrip.tla models the three name-keyed caches (pre-order filling from a container list, dependency-first container lookup "
          "while walking the document, writing in cache order); TLC checks StableAfterOne / WriteIsPure / NoDuplicates on container "
          "dependency graphs of 2-4 containers x initial orders x {object-built, loaded}. The real library is run through build + 3 "
          "write/load cycles on the same graphs and on random rich definitions: W(D) = W(D) bytewise, output well-formed with every "
          "element in the definition's namespace, D unchanged by writing, cache orders stable after the first cycle, G2 = G3 = G4 "
          "bytewise. Hand-written documents (string-encoded enumerations in every codec / byte-order spelling, time encodings) and all bundled documents go through the same byte-level cycle checks, as do files written by write_xml. Another, very different definition is written between the two writes of each definition, and every lattice point of RoundTripAttrs goes through the cycle checks."),
    note="Byte identity is observed directly on the real serializer with a fixed header date; the order in which the sets are written is "
         "not a verdict (only its stability), so a differing order is recorded as model drift. " + TRUSTED,
    technique="TLA+ model of cache ordering under write/load cycles checked by TLC; cycle replay on the real serializer with byte comparison",
    design="5 C15")
CHECKS["C09"] = dict(
    category="exploration",
    text=("RoundTripAttrs (TLA+) tabulates, per attribute, the values, those at which the writer omits the attribute and the reader's default; "
          "TLC checks Read(Write(v)) = v and exports every lattice point. Each point and random combinations become real definitions built "
          "from objects and loaded from XML; random rich definitions and the bundled / mission documents are added. For every definition X "
          "an independent structural projection (incl. length adjustments, calibrators, criteria, enumerations, units, descriptions, "
          "inheritance, abstract flags) of load(write(X)) must equal that of X, and packets must decode identically before and after. Object-built definitions are also taken with equal calibrators / encodings / criteria shared as single instances, and every second case writes a second tree before the first is serialised. The lattice also has structural alternatives (lookup lengths with comparison lists, boolean-expression context match, OffsetFrom, sibling groups, non-linear time polynomials, odd-width byte orders, numbers needing every digit of a double); object-built definitions are also handed over leaf-first with reversed term lists."),
    note="The deciding comparison is the harness's projection and decode comparison (exploration level); the TLA+ part enumerates the "
         "attribute lattice. Base-without-criteria and zero-length binary are outside the writable subset. " + TRUSTED,
    technique="TLA+ attribute-lattice enumeration (TLC) driving projection round-trip conformance on real definitions",
    design="5 C09")

CHECKS["C19"] = dict(
    text=("Cli.tla defines Rows(n) (all packets when n <= 10, else first five, ellipsis, last five) and Shown(n, i) (packet i iff 0 <= i < n, "
          "else the out-of-range message) as a small state machine (start, frame, render) whose framing step is the Framer module's "
          "terminating generator; TLC checks EachOnce, Elided, ParseTotal and Terminates for n in 0..13 and every index -2..n+1. Every "
          "exported case is replayed through `spp describe-packets` / `spp parse --packet i` on files with distinct APIDs (rows parsed from "
          "the rendered table); empty, truncated and garbage files are run in a child process under a time limit; the repository's own "
          "JPSS listing is checked for first-five / ellipsis / last-five. Tables and messages are read style-agnostically; files with unrecognised packets, files longer than the display limits and the global switches -q / -v / --log-level are covered."),
    note="Rows are recognised by their seven numeric cells; termination of the real CLI is observed under a time limit. " + TRUSTED,
    technique="TLA+ spec of the listing / index rules checked by TLC; exhaustive table replay through the click runner and child processes",
    design="5 C19")

CHECKS["C20"] = dict(
    text=("Values.tla models a value object as (kind, value, raw) with the construction rule raw = value iff the raw argument is None, and "
          "copy / deepcopy / pickle (protocols 0-5) as identity steps; TLC enumerates five kinds x value tokens (0, negative, 2^70, NaN, "
          "+-inf, -0.0, denormal, empty / non-ASCII / NUL text and bytes, booleans) x 12 raw arguments (None, falsy and truthy of every "
          "type) x all step sequences up to length 3 (RawRule, Preserved). Every exported case is executed on the real classes (raw rule, "
          "type, value and raw value after every step) and the built-in operations (comparison, hashing, dict keys, arithmetic, "
          "formatting, conversions, methods) are compared with the plain built-in; parsed packets from real generator runs are copied / "
          "pickled and compared (items, order, raw values, raw bytes, cursor, header view). Two parsed values are compared with each other like their plain values; values re-wrapped from parsed values and whole packets (one per stream, vacuity-guarded) are covered."),
    note="The built-in side of every comparison is Python itself; hash of NaN is identity-based and not compared. " + TRUSTED,
    technique="TLA+ state model of value objects and copy steps enumerated by TLC; every exported case replayed on the real classes",
    design="5 C20")

CHECKS["C18"] = dict(
    text=("Dataset.tla models create_dataset's accumulation (files in the order given, packets appended to the rows of their APID, field "
          "set of the first packet fixed per APID, a differing later packet rejects the call); TLC checks Ordered, Complete, OnlyOwn, "
          "RejectIff and Terminates over every layout of <= 4 packets of 2 APIDs x 2 field sets in <= 2 files, and every exported case is "
          "replayed through create_dataset on real files (rows identified by a packet id field). At value level, per-APID layouts cover "
          "integers around every dtype threshold (7..72 bits, signed and unsigned), IEEE 16/32/64 and 1750A floats incl. specials, "
          "enumerations, booleans, calibrated and time values, strings and blobs with NULs and non-ASCII text, in derived and raw mode "
          "over three files; every cell is compared with the item the packet generator yields for that packet. create_dataset is called in every documented shape (list / tuple / iterator / single path of str or Path; definition object or document path); binary fields of 4, 9, 12, 20 bits and a referenced length are part of the value layout. Datasets are built for three definitions sharing all names, keyword options are checked to reach the generator, and a field set is listed in two orders."),
    note="Two known findings (trailing NULs of 'S'/'U' dtype cells) are listed in known_findings.json and reported as KNOWN-FINDING; every "
         "other cell difference is a violation. The generator's own values are decided by C01/C04/C07/C08. " + TRUSTED,
    technique="TLA+ spec of per-APID accumulation checked by TLC and replayed through create_dataset; cell-by-cell comparison with the packet generator",
    design="5 C18")

NOT_YET = {}
for _i in range(1, 21):
    _p = f"C{_i:02d}"
    if _p not in CHECKS:
        NOT_YET[_p] = "check not built yet in this round (specification module pending, see DESIGN.md section 7.1)"
