"""Helpers for the pure case analyses: run a line-checking Trace_* module over ndjson logs in parallel JVMs."""
import os
from concurrent.futures import ThreadPoolExecutor

from harness import core


def validate_lines(ctx, module, rows, tag, cfg=None, jobs=8, chunk=None, env=None):
    """rows: list of dicts (one per line). Returns {index -> clause} for rejected lines. Splits the log over
    several TLC processes; every process must print DONE <n> (machinery guard)."""
    if not rows:
        return {}
    chunk = chunk or max(1, (len(rows) + jobs - 1) // jobs)
    parts = [(i, rows[i:i + chunk]) for i in range(0, len(rows), chunk)]
    paths = []
    for k, (off, part) in enumerate(parts):
        p = os.path.join(ctx.work, f"{tag}-{k}.ndjson")
        core.write_ndjson(p, part)
        paths.append((off, p, len(part)))

    def one(a):
        off, p, n = a
        e = {"TRACE_FILE": p}
        e.update(env or {})
        r = ctx.tlc(module, cfg or module + ".cfg", workers=1, env=e, tag=f"{tag}@{off}", heap="3g")
        return off, n, r
    rejected = {}
    with ThreadPoolExecutor(max_workers=min(jobs, 16)) as ex:
        for off, n, r in ex.map(one, paths):
            if not r.ok():
                raise core.MachineryError(f"{module} failed on {tag}@{off}: {r.error}\n" + "\n".join(r.stdout.splitlines()[-25:]))
            done = None
            for line in r.printed:
                v = core.parse_printed(line)
                if v[0] == "DONE":
                    done = v[1]
                elif v[0] == "REJECT":
                    rejected[off + v[1] - 1] = v[2:]
            if done != n:
                raise core.MachineryError(f"{module} consumed {done} of {n} lines of {tag}@{off}")
    for f in paths:
        os.unlink(f[1])
    ctx.traces += len(rows)
    return rejected


def int_to_bits(v, n):
    """n-bit MSB-first list of a non-negative int; longer if v does not fit (so that the mismatch is visible)."""
    if v < 0:
        return [2]          # not a bit: forces a mismatch
    w = max(n, v.bit_length())
    return [(v >> (w - 1 - i)) & 1 for i in range(w)]
