"""C08 helper: realise a raw value in a packet, decode with the real parameter type, observe."""
import json
import struct
import warnings
from fractions import Fraction

from harness import crit, xrender


def rat(n, d=1):
    f = Fraction(n, d)
    return {"num": f.numerator, "den": f.denominator}


def tv_of_python(v):
    if isinstance(v, bool):
        return crit.tv_bool(v)
    if isinstance(v, int):
        if abs(v) >= 2 ** 30:
            return {"t": "big"}
        return crit.tv_int(int(v))
    if isinstance(v, float):
        if v != v or v in (float("inf"), float("-inf")):
            return {"t": "big"}
        f = Fraction(v)
        if abs(f.numerator) >= 2 ** 30 or f.denominator >= 2 ** 30:
            return {"t": "big"}
        return crit.tv_flt(f.numerator, f.denominator)
    if isinstance(v, str):
        return crit.tv_str(str(v))
    return {"t": "other"}


def raw_bytes(enc, rawv):
    """packet bytes holding exactly the field (whole bytes)"""
    if enc["k"] == "int":
        n = rawv["n"] + rawv.get("shift", 0)
        w = enc["w"]
        return (n % (1 << w)).to_bytes(w // 8, "big")
    x = rawv["num"] / rawv["den"]
    return struct.pack({16: ">e", 32: ">f", 64: ">d"}[enc["w"]], x)


def shifted_enum(pt, rawv, B):
    """Real-side copy of an uncalibrated integer enumeration case with every listed raw value and the packet's raw value moved up
    by B (the specification keeps the small values: listing and lookup are translation invariant)."""
    import copy
    rp = copy.deepcopy(pt)
    for e in rp["enum"]:
        e["raw"] = dict(e["raw"], shift=B)
    if rp["cal"]["default"]["k"] == "spline":        # a spline is translation invariant in its raw coordinate as well
        for p_ in rp["cal"]["default"]["pts"]:
            p_["x"] = dict(p_["x"], shift=B)
    return rp, dict(rawv, shift=B)


def observe(pt, env, rawv, via="ctor", od=False, shared=None, unshift=0):
    """shared: dict keeping ONE type object per (type, route), so that it decodes all cases of that type in sequence.
    unshift: subtracted from the observed raw value (cases built by shifted_enum)."""
    from space_packet_parser import common, exceptions
    if shared is not None:
        key = (json.dumps(pt, sort_keys=True), via, od)
        t = shared.get(key)
        if t is None:
            t = shared[key] = xrender.obj_type("T", pt) if via == "ctor" else xrender.type_from_xml("T", pt, od)
    else:
        t = xrender.obj_type("T", pt) if via == "ctor" else xrender.type_from_xml("T", pt, od)
    pkt = crit.packet_of(env)
    from space_packet_parser import packets
    pkt.raw_data = packets.RawPacketData(raw_bytes(pt["enc"], rawv))
    none = {"t": "none"}
    with warnings.catch_warnings():
        warnings.simplefilter("ignore")
        try:
            v = t.parse_value(pkt)
        except exceptions.CalibrationError:
            return {"k": "err-calib", "v": none, "raw": none, "cls": ""}
        except (ValueError, LookupError) as e:
            # an enumerated type fails on an unlisted value; the wording (and whether it is a ValueError or a lookup error) is free
            if pt["kind"] == "enum":
                return {"k": "err-enum", "v": none, "raw": none, "cls": ""}
            return {"k": "X", "v": none, "raw": none, "cls": "ValueError: " + str(e)[:80]}
        except Exception as e:  # noqa: BLE001
            return {"k": "X", "v": none, "raw": none, "cls": type(e).__name__ + ": " + str(e)[:80]}
    cls = {common.IntParameter: "Int", common.FloatParameter: "Float", common.StrParameter: "Str",
           common.BoolParameter: "Bool", common.BinaryParameter: "Binary"}.get(type(v), type(v).__name__)
    tv = crit.tv_bool(bool(v)) if cls == "Bool" else tv_of_python(v)
    return {"k": "val", "v": tv, "raw": tv_of_python(v.raw_value - unshift if unshift else v.raw_value), "cls": cls}
