"""Drive ccsds_generator / packet_generator over instrumented sources and record interface traces.

The sources are ours (BytesIO / BufferedReader / socket subclasses that log every read/recv), the consumer is
ours (logs every yielded item and the end of iteration), and the in-repo hooks (top/trim/hdr/emit) add the
internal linearization points.  All events carry the same integer fields so TLC can read them uniformly.
"""
import io
import os
import socket
import tempfile

FIELDS = ("asked", "got", "n", "cur", "parsed", "need", "idx", "buflen")


def _ev(name, **kw):
    d = {"ev": name}
    for f in FIELDS:
        d[f] = int(kw.get(f, 0))
    return d


class LogBytesIO(io.BytesIO):
    def __init__(self, data, log):
        super().__init__(data)
        self._log = log

    def read(self, n=-1):
        r = super().read(n)
        self._log.append(_ev("read", asked=-1 if n is None else n, got=len(r)))
        return r


class LogReader(io.BufferedReader):
    def __init__(self, raw, log):
        super().__init__(raw)
        self._log = log

    def read(self, n=-1):
        r = super().read(n)
        self._log.append(_ev("read", asked=-1 if n is None else n, got=len(r)))
        return r


class ScriptedSocket(socket.socket):
    """A socket object whose recv() is served from `data`; `chooser(limit)` picks each chunk size in 1..limit.
    Once the data is drained recv() returns b'' (peer closed)."""

    def __init__(self, data, chooser, log):
        super().__init__(socket.AF_INET, socket.SOCK_STREAM)
        self._data = data
        self._off = 0
        self._chooser = chooser
        self._log = log

    def recv(self, n, flags=0):
        if not isinstance(n, int) or n < 0:
            raise ValueError("negative buffersize in recv")          # as a real socket does
        rem = len(self._data) - self._off
        g = 0
        if rem > 0:
            g = self._chooser(min(n, rem))
            if not (1 <= g <= min(n, rem)):
                raise RuntimeError(f"scripted chunk {g} not in 1..{min(n, rem)} (asked {n})")
        r = self._data[self._off:self._off + g]
        self._off += g
        self._log.append(_ev("read", asked=n, got=g))
        return r


class Script:
    """Chunk chooser following a fixed list of sizes; records a mismatch instead of raising."""

    def __init__(self, sizes):
        self.sizes = list(sizes)
        self.i = 0
        self.mismatch = None

    def __call__(self, limit):
        if self.i < len(self.sizes):
            g = self.sizes[self.i]
            if g > limit:       # the code asked for less than the model's chunk: split it, keep the cut points
                self.mismatch = f"model chunk {g} exceeds what the code asked for / what remains ({limit})"
                self.sizes[self.i] = g - limit
                return limit
            self.i += 1
            return g
        self.mismatch = "code issued more recv() calls than the model path"
        return limit


def make_source(kind, data, log, chooser=None):
    """kind: bytes | file (BytesIO) | rfile (real file on disk) | sock"""
    if kind == "bytes":
        return bytes(data), (lambda: None)
    if kind == "file":
        return LogBytesIO(bytes(data), log), (lambda: None)
    if kind == "rfile":
        fd, path = tempfile.mkstemp(prefix="spp-verif-", dir=os.environ.get("SPP_VERIF_TMP"))
        with os.fdopen(fd, "wb") as f:
            f.write(data)
        src = LogReader(io.FileIO(path, "rb"), log)

        def close():
            src.close()
            os.unlink(path)
        return src, close
    if kind == "sock":
        s = ScriptedSocket(bytes(data), chooser, log)
        return s, s.close
    raise ValueError(kind)


def run_framer(data, kind, rsize, skip, chooser=None, max_items=None, via="ccsds", gen_kwargs=None):
    """Run the framer over `data`. Returns (events, items, outcome).
    outcome: 'stop' | 'abort' (item budget exhausted: would not terminate) | 'raise:<Exc>'"""
    from space_packet_parser import _verif, packets
    log = []
    src, close = make_source(kind, data, log, chooser)

    def sink(ev, f):
        if ev in ("top", "trim", "hdr", "emit"):
            log.append(_ev(ev, **{k: v for k, v in f.items() if k in FIELDS and v is not None}))
    items = []
    outcome = "stop"
    old = _verif.sink
    _verif.sink = sink
    try:
        kw = dict(buffer_read_size_bytes=None if rsize == 0 else rsize, skip_header_bytes=skip)
        kw.update(gen_kwargs or {})
        if isinstance(via, str) and via == "ccsds":
            gen = packets.ccsds_generator(src, **kw)
        else:
            gen = via.packet_generator(src, **kw)
        try:
            for p in gen:
                items.append(p)
                if isinstance(p, bytes):
                    n_ = len(p)
                elif hasattr(p, "raw_data"):
                    n_ = len(p.raw_data)
                else:                       # an UnrecognizedPacketTypeError object carrying partial data
                    n_ = len(p.partial_data.raw_data) if getattr(p, "partial_data", None) is not None else 0
                log.append(_ev("yield", idx=len(items), n=n_))
                if max_items is not None and len(items) > max_items:
                    outcome = "abort"
                    gen.close()
                    break
            if outcome == "stop":
                log.append(_ev("stop"))
            else:
                log.append(_ev("abort"))
        except Exception as e:  # noqa: BLE001 - any escaping exception is an observation
            outcome = "raise:" + type(e).__name__
            log.append(_ev("raise"))
    finally:
        _verif.sink = old
        close()
    return log, items, outcome


def walk_packets(data, skip):
    """Offsets of the length fields a framer would read (used only to decide which bytes of a large stream
    are revealed to TLC; the specification recomputes everything from those bytes)."""
    offs = []
    off = 0
    total = len(data)
    while off + skip + 6 <= total:
        st = off + skip
        n = 7 + data[st + 4] * 256 + data[st + 5]
        offs.append(st)
        if st + n > total:
            break
        off = st + n
    return offs


def trace_record(tid, data, kind, rsize, skip, events, full_limit=96):
    mk = "file" if kind == "rfile" else kind
    if len(data) <= full_limit:
        stream = [{"o": i, "b": b} for i, b in enumerate(data)]
    else:
        stream = []
        for st in walk_packets(data, skip):
            for o in (st + 4, st + 5):
                if o < len(data):
                    stream.append({"o": o, "b": data[o]})
    # hook events (top/trim/hdr/emit) are coverage observers, not verdicts: TLC sees the interface events only
    iface = [e for e in events if e["ev"] in ("read", "yield", "stop", "abort", "raise")]
    return {"tid": tid, "kind": mk, "rsize": rsize, "skip": skip, "total": len(data), "stream": stream,
            "ev": iface}
