"""Small object-built XTCE definitions used by several checks (public constructors only)."""

HEADER = [("VERSION", 3), ("TYPE", 1), ("SEC_HDR_FLG", 1), ("PKT_APID", 11), ("SEQ_FLGS", 2), ("SRC_SEQ_CTR", 14),
          ("PKT_LEN", 16)]


def header_params(names=None):
    from space_packet_parser.xtce import encodings, parameter_types, parameters
    out = []
    for i, (nm, w) in enumerate(HEADER):
        nm = names[i] if names else nm
        t = parameter_types.IntegerParameterType(f"{nm}_T", encodings.IntegerDataEncoding(w, "unsigned"))
        out.append(parameters.Parameter(nm, t))
    return out


def header_only_definition():
    from space_packet_parser.xtce import containers, definitions
    root = containers.SequenceContainer("CCSDSPacket", header_params())
    return definitions.XtcePacketDefinition([root])


def header_definition_not_recognising(apid):
    """abstract header root with one concrete child for every APID except `apid`: packets of that APID are unrecognized"""
    from space_packet_parser.xtce import comparisons, containers, definitions
    child = containers.SequenceContainer("KNOWN", [], base_container_name="CCSDSPacket",
                                         restriction_criteria=[comparisons.Comparison(str(apid), "PKT_APID", "!=")])
    root = containers.SequenceContainer("CCSDSPacket", header_params(), abstract=True, inheritors=["KNOWN"])
    return definitions.XtcePacketDefinition([root, child])


def mk_packet(data, apid=0, flags=3, seq=0, version=0, typ=0, shf=0):
    from space_packet_parser import packets
    return bytes(packets.create_ccsds_packet(bytes(data), version_number=version, type=typ, secondary_header_flag=shf,
                                             apid=apid, sequence_flags=flags, sequence_count=seq))
