"""Random abstract definitions in the supported subset, with a steering encoder that builds packets reaching a chosen
container path.  The encoder only steers coverage: whatever bits it emits are decoded by the specification (TLC), never by
the encoder itself, and the packets are additionally mutated (truncated / extended / bit flips)."""
from harness import crit, defs, xdoc
from harness.calib import rat

HDR = [("VERSION", 3), ("TYPE", 1), ("SHF", 1), ("APID", 11), ("SEQF", 2), ("SEQC", 14), ("PLEN", 16)]
REP = {"US-ASCII": "AZaz09 _", "ISO-8859-1": "Aé\xa0z", "UTF-8": "Aé€z", "UTF-16LE": "Aé€z", "UTF-16BE": "Aé€z", "UTF-32LE": "Aé€𝄞",
       "Windows-1252": "A€z", "UTF-32BE": "Aé𝄞"}
PYC = {"US-ASCII": "ascii", "ISO-8859-1": "latin-1", "Windows-1252": "cp1252"}
WHOLE = {"k": "whole", "tc": [], "tag": 0, "unit": 1}


def bits_of(v, w):
    return [(v >> (w - 1 - i)) & 1 for i in range(w)]


def cmp(ref, op, n, cal=True):
    return {"k": "cmp", "ref": ref, "op": op, "cal": cal, "lit": crit.lit_num(n < 0, abs(n))}


def cond(name, op, n, cal=True):
    return {"k": "cond", "l": name, "lcal": cal, "op": op, "rk": "lit", "r": "", "rcal": False, "lit": crit.lit_num(n < 0, abs(n))}


class DefGen:
    def __init__(self, rng, rich=True):
        self.rng = rng
        self.d = xdoc.new_defn("ROOT")
        self.enc = {}        # param name -> encoder fn(ctx) -> bits
        self.small = {}      # container -> names of small unsigned int params usable as references (with their width)
        self.n = 0
        self.rich = rich
        self.enum_refs = {}  # container -> [(enum parameter name, listed raw values)] usable in criteria (raw or label comparison)

    # ------------------------------------------------------------------ fields
    def uint(self, name, w, order="msb"):
        xdoc.add_param(self.d, name, xdoc.ptype_num("int", xdoc.numeric_enc("int", w, "unsigned", order)))

        def enc(ctx, name=name, w=w, order=order):
            v = ctx["force"].get(name)
            if v is None:
                v = self.rng.choice([0, 1, (1 << w) - 1, self.rng.getrandbits(w)]) if w > 3 else self.rng.getrandbits(w)
            v &= (1 << w) - 1
            ctx["vals"][name] = v
            wire = int.from_bytes(v.to_bytes(w // 8, "big"), "little") if order == "lsb" else v
            return bits_of(wire, w)
        self.enc[name] = enc

    def rand_field(self, cname, refs):
        """add one random parameter; refs: list of (name, width) of small unsigned ints decoded earlier on this path"""
        rng = self.rng
        self.n += 1
        name = f"{cname}_F{self.n}"
        kinds = ["uint", "uint", "sint", "float", "enum", "bool", "bin", "str", "calib", "time", "wide"]
        if not refs:
            kinds = [k for k in kinds if k not in ()]
        k = rng.choice(kinds)
        if k == "uint":
            w = rng.choice([1, 2, 3, 4, 5, 7, 8, 9, 12, 16, 16, 24, 32])
            order = rng.choice(["msb", "lsb"]) if w % 8 == 0 and w > 8 else "msb"
            self.uint(name, w, order)
            return name, (w if w <= 8 and order == "msb" else None)
        if k == "wide":
            w = rng.choice([33, 40, 48, 64, 72])
            e = rng.choice(["unsigned", "signed", "twosComplement"])
            xdoc.add_param(self.d, name, xdoc.ptype_num("int", xdoc.numeric_enc("int", w, e, rng.choice(["msb", "lsb"]) if w % 8 == 0 else "msb")))
            self.enc[name] = lambda ctx, w=w: [rng.getrandbits(1) for _ in range(w)] if rng.random() < 0.7 else [rng.getrandbits(1)] * w
            return name, None
        if k == "sint":
            w = rng.choice([2, 3, 7, 8, 12, 16, 32])
            e = rng.choice(["signed", "twosComplement"])
            xdoc.add_param(self.d, name, xdoc.ptype_num("int", xdoc.numeric_enc("int", w, e, rng.choice(["msb", "lsb"]) if w % 8 == 0 and w > 8 else "msb")))
            self.enc[name] = lambda ctx, w=w: [rng.getrandbits(1) for _ in range(w)]
            return name, None
        if k == "float":
            w, fmt = rng.choice([(16, "ieee"), (32, "ieee"), (64, "ieee"), (32, "mil1750a")])
            xdoc.add_param(self.d, name, xdoc.ptype_num("float", xdoc.numeric_enc("flt", w, order=rng.choice(["msb", "lsb"]), fmt=fmt)))

            def encf(ctx, w=w):
                m = rng.randrange(4)
                if m == 0:
                    return [rng.getrandbits(1) for _ in range(w)]
                if m == 1:
                    return [rng.getrandbits(1)] + [0] * (w - 1)
                if m == 2:
                    return [rng.getrandbits(1)] + [1] * (w - 1)
                return [0, 0, 1, 1] + [rng.getrandbits(1) for _ in range(w - 4)]
            self.enc[name] = encf
            return name, None
        if k == "enum":
            w = rng.choice([1, 2, 3])
            vals = list(range(1 << w))
            listed = vals if rng.random() < 0.7 else rng.sample(vals, max(1, len(vals) - 1))
            en = [{"raw": crit.tv_int(v), "label": f"L{v}"} for v in listed]
            xdoc.add_param(self.d, name, xdoc.ptype_num("enum", xdoc.numeric_enc("int", w), enum=en))
            def ence(ctx, name=name, w=w, listed=listed):
                v = ctx["force"].get(name)
                if v is None:
                    v = rng.choice(listed) if rng.random() < 0.95 else rng.getrandbits(w)
                return bits_of(v & ((1 << w) - 1), w)
            self.enc[name] = ence
            self.enum_refs.setdefault(cname, []).append((name, listed))
            return name, None
        if k == "bool":
            w = rng.choice([1, 1, 2, 8])
            cal = None
            if rng.random() < 0.35:
                # a boolean over a calibrated encoding: its truth is that of the RAW value (here the calibrated value has the opposite one)
                from harness.calib import rat as _rat
                from harness.props.c08 import poly as _poly
                cal = {"default": _poly([(_rat(1), 0), (_rat(-1), 1)]) if w == 1 else _poly([(_rat(0), 1)]), "context": []}
            xdoc.add_param(self.d, name, xdoc.ptype_num("bool", xdoc.numeric_enc("int", w), cal))
            self.enc[name] = lambda ctx, w=w: bits_of(rng.choice([0, 0, 1, rng.getrandbits(w)]) & ((1 << w) - 1), w)
            return name, None
        if k in ("calib", "time"):
            from harness.props.c08 import poly, XS
            w = 8
            if k == "time":
                shape = rng.choice(["linear", "linear", "scale", "quadratic", "offset+quadratic", "none"])
                terms = {"linear": [(rat(rng.randint(-9, 9), 2), 0), (rat(rng.randint(1, 9), 4), 1)], "scale": [(rat(rng.randint(1, 9), 4), 1)],
                         "quadratic": [(rat(rng.randint(1, 5), 4), 2)], "offset+quadratic": [(rat(rng.randint(-9, 9), 2), 0), (rat(1, 4), 2)], "none": []}[shape]
                cal = {"default": poly(terms) if terms else {"k": "none"}, "context": []}
                pt = xdoc.ptype_num(rng.choice(["abstime", "reltime"]), xdoc.numeric_enc("int", w), cal, unit="s")
                pt["epoch"] = "TAI"
            else:
                def rcal():
                    if rng.random() < 0.5:
                        nt = rng.randint(1, 3)
                        return poly([(rat(rng.randint(-12, 12), rng.choice([1, 2, 4])), e) for e in rng.sample(range(3), nt)])
                    n = rng.randint(2, 4)
                    i0 = rng.randint(0, len(XS) - n)
                    return {"k": "spline", "order": rng.randint(0, 1), "extrap": rng.random() < 0.7,
                            "pts": [{"x": rat(XS[i0 + j]), "y": rat(rng.randint(-40, 40), rng.choice([1, 2, 4]))} for j in range(n)]}
                ctxs = []
                for _ in range(rng.choice([0, 0, 1, 2])):
                    if refs and rng.random() < 0.7:
                        rn, rw = rng.choice(refs)
                        c = [cmp(rn, rng.choice(["==", "!=", "<", ">="]), rng.randint(0, min(3, (1 << rw) - 1)))]
                    else:
                        c = [cmp("SELF_" + name, rng.choice(["<", ">="]), rng.choice([2, 4, 8]), False)]
                    ctxs.append({"crit": c, "cal": rcal()})
                cal = {"default": rcal() if rng.random() < 0.6 else {"k": "none"}, "context": ctxs}
                pt = xdoc.ptype_num(rng.choice(["int", "int", "float"]) if False else "int", xdoc.numeric_enc("int", w), cal)
            xdoc.add_param(self.d, name, pt)
            self.enc[name] = lambda ctx: bits_of(rng.choice([0, 1, 2, 4, 8, 16, rng.randint(0, 20)]), 8)
            return name, None
        # ---- binary / string with a computed or fixed length
        how = rng.choice(["fixed", "dyn", "dyn", "lookup"]) if refs else "fixed"
        if k == "bin":
            if how == "fixed":
                n = rng.choice([1, 3, 8, 12, 16, 24, 40])
                ls = {"k": "fixed", "n": n}
                lenf = lambda ctx, n=n: n
            elif how == "dyn":
                rn, rw = rng.choice(refs)
                slope, icpt = rng.choice([(8, 0), (8, 8), (1, 3), (8, -8), (None, 0)])
                ls = {"k": "dyn", "ref": rn, "cal": rng.random() < 0.5, "adj": slope is not None, "slope": slope or 0, "icpt": icpt}
                lenf = lambda ctx, rn=rn, slope=slope, icpt=icpt: (slope * ctx["vals"][rn] + icpt) if slope is not None else ctx["vals"][rn]
            else:
                rn, rw = rng.choice(refs)
                vals = list(range(min(4, 1 << rw)))
                ent = [{"items": [cmp(rn, "==", v)], "val": 8 * rng.randint(0, 4) + rng.choice([0, 0, 4])} for v in vals]
                if rng.random() < 0.3:
                    ent = ent[:-1]
                ls = {"k": "lookup", "entries": ent}

                def lenf(ctx, rn=rn, ent=ent):
                    for e_ in ent:
                        if ctx["vals"][rn] == e_["items"][0]["lit"]["ip"]:
                            return e_["val"]
                    return 0
            xdoc.add_param(self.d, name, xdoc.ptype_sb({"k": "bin", "len": ls, "delim": WHOLE, "codec": ""}))
            self.enc[name] = lambda ctx, lenf=lenf: [rng.getrandbits(1) for _ in range(max(0, lenf(ctx)))]
            return name, None
        # string
        codec = rng.choice(list(REP))
        unit = {"UTF-16LE": 2, "UTF-16BE": 2, "UTF-32LE": 4, "UTF-32BE": 4}.get(codec, 1)
        pyc = PYC.get(codec, codec)
        dk = rng.choice(["whole", "term", "lead"])
        if how == "lookup":
            how = "dyn"
        if how == "dyn":
            rn, rw = rng.choice(refs)
            ls = {"k": "dyn", "ref": rn, "cal": rng.random() < 0.5, "adj": True, "slope": 8, "icpt": 0}
            nbytes = lambda ctx, rn=rn: ctx["vals"][rn]
        else:
            nb = unit * rng.randint(1, 6) + (2 if dk == "lead" else 0)
            ls = {"k": "fixed", "n": 8 * nb}
            nbytes = lambda ctx, nb=nb: nb
        if dk == "term":
            tcb = "\x00".encode(pyc) if rng.random() < 0.6 else "z".encode(pyc)
            delim = {"k": "term", "tc": list(tcb), "tag": 0, "unit": unit}
        elif dk == "lead":
            delim = {"k": "lead", "tc": [], "tag": 8, "unit": 1}
        else:
            delim = WHOLE
        xdoc.add_param(self.d, name, xdoc.ptype_sb({"k": "str", "len": ls, "delim": delim, "codec": codec}))

        def encs(ctx, nbytes=nbytes, dk=dk, delim=delim, codec=codec, pyc=pyc, unit=unit):
            n = max(0, nbytes(ctx))
            body = b""
            if dk == "lead":
                avail = max(0, n - 1) // unit * unit
                txt = "".join(rng.choice(REP[codec][:3]) for _ in range(avail // unit if unit > 1 else avail // 3))
                tb = txt.encode(pyc)[:avail]
                tb = tb[:len(tb) // unit * unit] if unit > 1 else tb.decode(pyc, "ignore").encode(pyc)
                body = bytes([min(255, 8 * len(tb))]) + tb
            else:
                txt = "".join(rng.choice(REP[codec][:3]) for _ in range(n))
                tb = txt.encode(pyc)
                if dk == "term":
                    tcb = bytes(delim["tc"])
                    keep = max(0, n - len(tcb)) // unit * unit
                    tb = tb[:keep]
                    tb = tb if unit > 1 else tb.decode(pyc, "ignore").encode(pyc)
                    body = tb + tcb
                else:
                    tb = tb[:n]
                    body = tb[:len(tb) // unit * unit] if unit > 1 else tb.decode(pyc, "ignore").encode(pyc)
            body = (body + bytes(n))[:n]
            return [int(c) for by in body for c in format(by, "08b")]
        self.enc[name] = encs
        return name, None

    # -------------------------------------------------------------- containers
    def build(self):
        rng = self.rng
        for nm, w in HDR:
            self.uint(nm, w)
        xdoc.add_container(self.d, "ROOT", [("p", nm) for nm, _ in HDR], abstract=rng.random() < 0.8)
        self.paths = []          # list of (container chain, forced values)
        shared = None
        if rng.random() < 0.6:
            self.uint("SH_A", rng.choice([2, 4, 8]))
            self.uint("SH_B", 8)
            xdoc.add_container(self.d, "SHARED", [("p", "SH_A"), ("p", "SH_B")], abstract=True)
            shared = [("SH_A", self.d["types"]["SH_A_T"]["enc"]["w"]), ("SH_B", 8)]
        napid = rng.randint(1, 4)
        for a in range(1, napid + 1):
            cname = f"P{a}"
            entries, refs = self.entries_for(cname, [], shared)
            crits = [cmp("APID", "==", a)]
            if rng.random() < 0.3:
                crits.append(cmp("TYPE", "==", 0))
            if rng.random() < 0.3:
                shape = rng.randrange(3)
                if shape == 0:
                    crits = [{"k": "and", "conds": [cond("APID", "==", a), cond("VERSION", "<", 4)], "groups": []}]
                elif shape == 1:      # AND with a nested OR group
                    crits = [{"k": "and", "conds": [cond("APID", "==", a)],
                              "groups": [{"k": "or", "conds": [cond("VERSION", "<", 4), cond("TYPE", "==", 1)], "groups": []}]}]
                else:                 # OR of an AND group and a condition that never holds
                    crits = [{"k": "or", "conds": [cond("APID", "==", 2000 + a)],
                              "groups": [{"k": "and", "conds": [cond("APID", "==", a), cond("VERSION", "<", 4)],
                                          "groups": [{"k": "or", "conds": [cond("TYPE", "==", 0), cond("SHF", "==", 1)], "groups": []}]}]}]
            has_kids = rng.random() < 0.5 and refs
            xdoc.add_container(self.d, cname, entries, base="ROOT", crit_list=crits, abstract=bool(has_kids and rng.random() < 0.5))
            self.paths.append(([cname], {"APID": a, "TYPE": 0, "VERSION": rng.randrange(4)}))
            if has_kids:
                rn, rw = refs[0]
                kid_specs = [("==", 0), ("==", 1)] if rng.random() < 0.7 else [("<", 2), (">=", 1)]   # second pair overlaps at 1
                erefs = [e for e in self.enum_refs.get(cname, []) if len(e[1]) >= 2]
                use_enum = erefs and rng.random() < 0.5
                if use_enum:      # children selected by an enumerated parameter: by raw value or by label
                    rn, listed = rng.choice(erefs)
                    kid_specs = [("==", listed[0]), ("==", listed[1])]
                    by_label = rng.random() < 0.5
                for j, (op, v) in enumerate(kid_specs):
                    kname = f"{cname}K{j}"
                    e2, r2 = self.entries_for(kname, refs, shared if rng.random() < 0.3 else None)
                    if use_enum:
                        c_ = ({"k": "cmp", "ref": rn, "op": "==", "cal": True, "lit": crit.lit_txt(f"L{v}")} if by_label
                              else cmp(rn, "==", v, False))
                        xdoc.add_container(self.d, kname, e2, base=cname, crit_list=[c_])
                        self.paths.append(([cname, kname], {"APID": a, "TYPE": 0, "VERSION": 0, rn: v}))
                        continue
                    xdoc.add_container(self.d, kname, e2, base=cname, crit_list=[cmp(rn, op, v, rng.random() < 0.7)])
                    self.paths.append(([cname, kname], {"APID": a, "TYPE": 0, "VERSION": 0, rn: v if op == "==" else (0 if op == "<" else 2)}))
                    if rng.random() < 0.3 and r2 and len(r2) > len(refs):
                        gname = f"{kname}G"
                        e3, _ = self.entries_for(gname, r2, None)
                        rn2, _ = r2[-1]
                        xdoc.add_container(self.d, gname, e3, base=kname, crit_list=[cmp(rn2, ">=", 1)])
                        self.paths.append(([cname, kname, gname], {"APID": a, "TYPE": 0, "VERSION": 0, rn: v if op == "==" else (0 if op == "<" else 2), rn2: 1}))
        return self

    def entries_for(self, cname, refs, shared):
        rng = self.rng
        refs = list(refs)
        entries = []
        # a small unsigned field first, so that lengths / criteria have something to reference
        self.n += 1
        f0 = f"{cname}_F{self.n}"
        w0 = rng.choice([2, 3, 4, 8])
        self.uint(f0, w0)
        entries.append(("p", f0))
        refs.append((f0, w0))
        if shared and rng.random() < 0.7:
            entries.insert(rng.randint(0, 1), ("c", "SHARED"))
            refs += shared
        for _ in range(rng.randint(1, 5 if self.rich else 2)):
            nm, w = self.rand_field(cname, refs)
            entries.append(("p", nm))
            if w:
                refs.append((nm, w))
        if shared and rng.random() < 0.15:
            entries.append(("c", "SHARED"))
        return entries, refs

    # ------------------------------------------------------------------ packets
    def packet(self, mutate=True):
        rng = self.rng
        chain, force = rng.choice(self.paths)
        force = dict(force)
        if rng.random() < 0.15:
            force["APID"] = rng.choice([0, 7, 2047, force["APID"]])
        ctx = {"vals": {}, "force": force}
        bits = []

        def walk(cname):
            for e in self.d["containers"][cname]["entries"]:
                if e["k"] == "c":
                    walk(e["n"])
                else:
                    bits.extend(self.enc[e["n"]](ctx))
        for c in chain:
            walk(c)
        bits += [0] * ((-len(bits)) % 8)
        if not bits:
            bits = [0] * 8
        data = bytes(int("".join(map(str, bits[i:i + 8])), 2) for i in range(0, len(bits), 8))
        if mutate:
            m = rng.random()
            if m < 0.08 and len(data) > 1:
                data = data[:rng.randint(1, len(data) - 1)]
            elif m < 0.16:
                data = data + bytes(rng.getrandbits(8) for _ in range(rng.randint(1, 3)))
            elif m < 0.3:
                ba = bytearray(data)
                for _ in range(rng.randint(1, 3)):
                    ba[rng.randrange(len(ba))] ^= 1 << rng.randrange(8)
                data = bytes(ba)
        if len(data) > 60000:
            data = data[:60000]
        return list(defs.mk_packet(data or b"\0", apid=force["APID"] & 2047, flags=3, seq=rng.randrange(16384), version=force.get("VERSION", 0) & 7,
                                   typ=force.get("TYPE", 0) & 1))
