"""An independent XTCE reader (stdlib xml.etree only; shares no code with the library's lxml path): XTCE document ->
abstract definition (DESIGN appendix A.2) for the features the bundled and mission documents use.  Anything it does not
understand raises Unsupported, so that a document is never silently mis-modelled."""
import re
import xml.etree.ElementTree as ET
from fractions import Fraction

from harness import crit


class Unsupported(Exception):
    pass


def _local(tag):
    return tag.rsplit("}", 1)[-1]


def _children(el, name=None):
    return [c for c in el if isinstance(c.tag, str) and (name is None or _local(c.tag) == name)]


def _child(el, name):
    cs = _children(el, name)
    return cs[0] if cs else None


def _bool(s, default):
    return default if s is None else s.strip().lower() == "true"


def literal(text):
    t = text.strip()
    m = re.fullmatch(r"(-?)(\d+)(?:\.(\d+))?", t)
    if m and len(m.group(2)) <= 9 and (m.group(2) == "0" or not m.group(2).startswith("0")):
        return {"k": "num", "neg": m.group(1) == "-", "ip": int(m.group(2)), "fd": [int(c) for c in (m.group(3) or "")], "txt": text}
    return crit.lit_txt(text)


def comparison(el):
    return {"k": "cmp", "ref": el.attrib["parameterRef"], "op": el.attrib.get("comparisonOperator", "=="),
            "cal": _bool(el.attrib.get("useCalibratedValue"), True), "lit": literal(el.attrib["value"])}


def condition(el):
    refs = _children(el, "ParameterInstanceRef")
    op = _child(el, "ComparisonOperator").text
    left = refs[0]
    out = {"k": "cond", "l": left.attrib["parameterRef"], "lcal": _bool(left.attrib.get("useCalibratedValue"), True), "op": op,
           "rk": "lit", "r": "", "rcal": False, "lit": crit.lit_num(False, 0)}
    if len(refs) == 2:
        out.update(rk="param", r=refs[1].attrib["parameterRef"], rcal=_bool(refs[1].attrib.get("useCalibratedValue"), True))
    elif len(refs) == 1:
        out["lit"] = literal(_child(el, "Value").text)
    else:
        raise Unsupported("Condition with %d references" % len(refs))
    return out


def group(el):
    kind = {"ANDedConditions": "and", "ORedConditions": "or"}[_local(el.tag)]
    conds = [condition(c) for c in _children(el, "Condition")]
    sub = [group(c) for c in _children(el, "ORedConditions" if kind == "and" else "ANDedConditions")]
    return {"k": kind, "conds": conds, "groups": sub}


def bool_expr(el):
    c = _child(el, "Condition")
    if c is not None:
        return condition(c)
    for name in ("ANDedConditions", "ORedConditions"):
        g = _child(el, name)
        if g is not None:
            return group(g)
    raise Unsupported("empty BooleanExpression")


def criteria(parent):
    """contents of RestrictionCriteria / ContextMatch"""
    cl = _child(parent, "ComparisonList")
    if cl is not None:
        return [comparison(c) for c in _children(cl, "Comparison")]
    c = _child(parent, "Comparison")
    if c is not None:
        return [comparison(c)]
    b = _child(parent, "BooleanExpression")
    if b is not None:
        return [bool_expr(b)]
    raise Unsupported("criteria of an unsupported kind")


def _rat(text):
    f = Fraction(text.strip())
    return {"num": f.numerator, "den": f.denominator}


def calibrator(el):
    k = _local(el.tag)
    if k == "PolynomialCalibrator":
        return {"k": "poly", "terms": [{"c": _rat(t.attrib["coefficient"]), "e": int(t.attrib["exponent"])} for t in _children(el, "Term")]}
    if k == "SplineCalibrator":
        return {"k": "spline", "order": int(el.attrib.get("order", "0")), "extrap": _bool(el.attrib.get("extrapolate"), False),
                "pts": [{"x": _rat(p.attrib["raw"]), "y": _rat(p.attrib["calibrated"])} for p in _children(el, "SplinePoint")]}
    raise Unsupported(k)


def calset(enc_el):
    d = {"default": {"k": "none"}, "context": []}
    dc = _child(enc_el, "DefaultCalibrator")
    if dc is not None:
        d["default"] = calibrator(_children(dc)[0])
    cl = _child(enc_el, "ContextCalibratorList")
    if cl is not None:
        for cc in _children(cl, "ContextCalibrator"):
            d["context"].append({"crit": criteria(_child(cc, "ContextMatch")), "cal": calibrator(_children(_child(cc, "Calibrator"))[0])})
    return d


ORD = {"mostSignificantByteFirst": "msb", "leastSignificantByteFirst": "lsb"}


def length_spec(size_el):
    fv = size_el.find("./{*}FixedValue")
    if fv is None:
        fv = size_el.find("./{*}Fixed/{*}FixedValue")
    if fv is not None:
        return {"k": "fixed", "n": int(fv.text)}
    dv = _child(size_el, "DynamicValue")
    if dv is not None:
        ref = _child(dv, "ParameterInstanceRef")
        la = _child(dv, "LinearAdjustment")
        return {"k": "dyn", "ref": ref.attrib["parameterRef"], "cal": _bool(ref.attrib.get("useCalibratedValue"), True), "adj": la is not None,
                "slope": int(la.attrib.get("slope", "0")) if la is not None else 0, "icpt": int(la.attrib.get("intercept", "0")) if la is not None else 0}
    raise Unsupported("length specification")


def encoding_of(type_el):
    for el in type_el.iter():
        if not isinstance(el.tag, str):
            continue
        k = _local(el.tag)
        if k == "IntegerDataEncoding":
            return "num", {"k": "int", "w": int(el.attrib["sizeInBits"]), "enc": el.attrib.get("encoding", "unsigned"),
                           "order": ORD[el.attrib.get("byteOrder", "mostSignificantByteFirst")], "fmt": ""}, calset(el)
        if k == "FloatDataEncoding":
            e = el.attrib.get("encoding", "IEEE754")
            fmt = {"IEEE754": "ieee", "IEEE754_1985": "ieee", "IEEE-754": "ieee", "MILSTD_1750A": "mil1750a", "MIL-1750A": "mil1750a"}.get(e)
            if fmt is None:
                raise Unsupported("float encoding " + e)
            return "num", {"k": "flt", "w": int(el.attrib["sizeInBits"]), "enc": "", "order": ORD[el.attrib.get("byteOrder", "mostSignificantByteFirst")],
                           "fmt": fmt}, calset(el)
        if k == "BinaryDataEncoding":
            return "sb", {"k": "bin", "len": length_spec(_child(el, "SizeInBits")), "delim": {"k": "whole", "tc": [], "tag": 0, "unit": 1}, "codec": ""}, None
        if k == "StringDataEncoding":
            size = _child(el, "SizeInBits")
            var = _child(el, "Variable")
            holder = size if size is not None else var
            if holder is None:
                raise Unsupported("string without size")
            ls = length_spec(holder)
            codec = el.attrib.get("encoding", "UTF-8")
            unit = {"UTF-16LE": 2, "UTF-16BE": 2, "UTF-32LE": 4, "UTF-32BE": 4}.get(codec, 1)
            delim = {"k": "whole", "tc": [], "tag": 0, "unit": 1}
            tc = _child(holder, "TerminationChar")
            lsz = _child(holder, "LeadingSize")
            if lsz is not None:
                delim = {"k": "lead", "tc": [], "tag": int(lsz.attrib["sizeInBitsOfSizeTag"]), "unit": 1}
            elif tc is not None:
                delim = {"k": "term", "tc": list(bytes.fromhex(tc.text.strip())), "tag": 0, "unit": unit}
            return "sb", {"k": "str", "len": ls, "delim": delim, "codec": codec}, None
    raise Unsupported("no data encoding in " + type_el.attrib.get("name", "?"))


KINDS = {"IntegerParameterType": "int", "FloatParameterType": "float", "EnumeratedParameterType": "enum", "BooleanParameterType": "bool",
         "BinaryParameterType": "bin", "StringParameterType": "str", "AbsoluteTimeParameterType": "abstime", "RelativeTimeParameterType": "reltime"}


def read(path, root="CCSDSPacket"):
    tree = ET.parse(path)
    top = tree.getroot()
    tm = _child(top, "TelemetryMetaData")
    d = {"root": root, "params": {}, "porder": [], "types": {}, "torder": [], "containers": {}, "corder": []}
    for t in _children(_child(tm, "ParameterTypeSet")):
        kind = KINDS.get(_local(t.tag))
        if kind is None:
            raise Unsupported(_local(t.tag))
        which, enc, cs = encoding_of(t)
        name = t.attrib["name"]
        if which == "sb":
            if kind not in ("bin", "str"):
                raise Unsupported(f"{kind} over a string/binary encoding")
            pt = {"kind": kind, "sb": enc, "unit": ""}
        else:
            pt = {"kind": kind, "enc": enc, "cal": cs, "enum": [], "unit": ""}
            if kind == "enum":
                for e in t.iter():
                    if isinstance(e.tag, str) and _local(e.tag) == "Enumeration":
                        v = e.attrib["value"]
                        tv = crit.tv_int(int(v)) if re.fullmatch(r"-?\d+", v.strip()) else crit.tv_flt(Fraction(v).numerator, Fraction(v).denominator)
                        pt["enum"].append({"raw": tv, "label": e.attrib["label"]})
            if kind in ("abstime", "reltime"):
                raise Unsupported("time types are not read by the independent reader")
        us = t.findall("./{*}UnitSet/{*}Unit")
        if len(us) > 1:
            raise Unsupported("several units")
        if us:
            pt["unit"] = us[0].text or ""
        d["types"][name] = pt
        d["torder"].append(name)
    for p in _children(_child(tm, "ParameterSet"), "Parameter"):
        ld = _child(p, "LongDescription")
        d["params"][p.attrib["name"]] = {"type": p.attrib["parameterTypeRef"], "short": p.attrib.get("shortDescription", ""),
                                         "long": (ld.text or "") if ld is not None else ""}
        d["porder"].append(p.attrib["name"])
    for c in _children(_child(tm, "ContainerSet"), "SequenceContainer"):
        ents = []
        for e in _children(_child(c, "EntryList")):
            k = _local(e.tag)
            if k == "ParameterRefEntry":
                ents.append({"k": "p", "n": e.attrib["parameterRef"]})
            elif k == "ContainerRefEntry":
                ents.append({"k": "c", "n": e.attrib["containerRef"]})
            else:
                raise Unsupported(k)
        base, cl = "", []
        b = _child(c, "BaseContainer")
        if b is not None:
            base = b.attrib["containerRef"]
            rc = _child(b, "RestrictionCriteria")
            if rc is not None:
                cl = criteria(rc)
        d["containers"][c.attrib["name"]] = {"abstract": _bool(c.attrib.get("abstract"), False), "base": base, "crit": cl, "entries": ents,
                                             "short": c.attrib.get("shortDescription", ""),
                                             "long": (_child(c, "LongDescription").text or "") if _child(c, "LongDescription") is not None else ""}
        d["corder"].append(c.attrib["name"])
    return d


def prune(d, keep_containers):
    """Keep the entry lists only of the named containers (and of everything they nest); other containers keep their criteria
    (they still take part in the choice of inheritors) but get an entry that cannot be decoded, so that entering one of them
    is visible.  Parameters / types not referenced any more are dropped."""
    out = {"root": d["root"], "params": {}, "porder": [], "types": {}, "torder": [], "containers": {}, "corder": list(d["corder"])}
    keep = set()

    def add(cn):
        if cn in keep or cn not in d["containers"]:
            return
        keep.add(cn)
        if d["containers"][cn]["base"]:
            add(d["containers"][cn]["base"])
        for e in d["containers"][cn]["entries"]:
            if e["k"] == "c":
                add(e["n"])
    for cn in keep_containers:
        add(cn)
    used = set()
    for cn, c in d["containers"].items():
        c2 = dict(c)
        if cn not in keep:
            c2["entries"] = [{"k": "p", "n": "__PRUNED__"}]
        else:
            used |= {e["n"] for e in c["entries"] if e["k"] == "p"}
        out["containers"][cn] = c2
    for cn, c in out["containers"].items():
        for x in c["crit"]:
            _refs(x, used)
    for p in d["porder"]:
        if p in used:
            out["params"][p] = d["params"][p]
            out["porder"].append(p)
            t = d["params"][p]["type"]
            if t not in out["types"]:
                out["types"][t] = d["types"][t]
                out["torder"].append(t)
    out["types"]["__PRUNED___T"] = {"kind": "enum", "enc": {"k": "int", "w": 1, "enc": "unsigned", "order": "msb", "fmt": ""},
                                    "cal": {"default": {"k": "none"}, "context": []}, "enum": [], "unit": ""}
    out["torder"].append("__PRUNED___T")
    out["params"]["__PRUNED__"] = {"type": "__PRUNED___T", "short": "", "long": ""}
    out["porder"].append("__PRUNED__")
    return out


def _refs(c, acc):
    if c["k"] == "cmp":
        acc.add(c["ref"])
    elif c["k"] == "cond":
        acc.add(c["l"])
        if c["rk"] == "param":
            acc.add(c["r"])
    else:
        for x in c["conds"]:
            _refs(x, acc)
        for g in c["groups"]:
            _refs(g, acc)
