"""Criteria cases: JSON expression <-> real comparison objects (constructors and XML), environments, observation."""
import json
import warnings

SPELL = {"eq": ["==", "eq"], "ne": ["!=", "neq"], "lt": ["<", "lt", "&lt;"], "gt": [">", "gt", "&gt;"],
         "le": ["<=", "leq", "&lt;="], "ge": [">=", "geq", "&gt;="]}
XML_OK = {"==", "eq", "!=", "neq", "<", "lt", ">", "gt", "<=", "leq", ">=", "geq"}   # what survives XML unescaping


def lit_num(neg, ip, fd=()):
    txt = ("-" if neg else "") + str(ip) + ("." + "".join(map(str, fd)) if fd else "")
    return {"k": "num", "neg": bool(neg), "ip": ip, "fd": list(fd), "txt": txt}


def lit_txt(s):
    return {"k": "txt", "neg": False, "ip": 0, "fd": [], "txt": s}


def tv_int(n):
    return {"t": "int", "n": n}


def tv_bool(b):
    return {"t": "bool", "n": int(b)}


def tv_flt(num, den=1):
    return {"t": "flt", "num": num, "den": den}


def tv_str(s):
    return {"t": "str", "s": s}


NONE = {"t": "none"}


def _flt(tv):
    if tv.get("shift"):
        from fractions import Fraction
        return float(Fraction(tv["num"], tv["den"]) + tv["shift"])      # exactly representable by construction (see shifted())
    return tv["num"] / tv["den"]


def shifted(c, B):
    """Real-side copy of a cmp / cond case with every numeric value and literal moved up by B (the model keeps the small values:
    the six relations are translation invariant). None if a value cannot be moved exactly (fractions, bools, strings, floats that
    are not representable at that magnitude)."""
    import copy
    from fractions import Fraction

    def tv(v):
        if v["t"] == "none":
            return v
        if v["t"] == "int":
            return dict(v, shift=B)
        if v["t"] == "flt":
            x = Fraction(v["num"], v["den"]) + B
            return dict(v, shift=B) if Fraction(float(x)) == x else None
        return None

    anyflt = any(e[k]["t"] == "flt" for e in c["env"] for k in ("v", "r")) or c["cur"]["t"] == "flt"

    def lit(l):
        if l["k"] != "num" or l["fd"]:
            return None
        x = (-l["ip"] if l["neg"] else l["ip"]) + B
        if anyflt and int(float(x)) != x:
            return None       # not expressible in a float operand's type at this magnitude: the relation is undefined there
        return dict(l, txt=str(x))
    rc = copy.deepcopy(c)
    env = []
    for e in rc["env"]:
        v, r = tv(e["v"]), tv(e["r"])
        if v is None or r is None:
            return None
        env.append({"name": e["name"], "v": v, "r": r})
    rc["env"] = env
    rc["cur"] = tv(rc["cur"])
    if rc["cur"] is None:
        return None
    x = rc["expr"]
    if x["k"] == "cmp" or (x["k"] == "cond" and x["rk"] == "lit"):
        x["lit"] = lit(x["lit"])
        if x["lit"] is None:
            return None
    elif x["k"] != "cond":
        return None
    return rc


def py_plain(tv):
    if tv["t"] == "int":
        return tv["n"] + tv.get("shift", 0)
    if tv["t"] == "bool":
        return bool(tv["n"])
    if tv["t"] == "flt":
        return _flt(tv)
    if tv["t"] == "str":
        return tv["s"]
    return None


def py_param(v, r):
    """Parameter value object with derived value v and raw value r (typed)."""
    from space_packet_parser import common
    raw = py_plain(r)
    if v["t"] == "int":
        return common.IntParameter(v["n"] + v.get("shift", 0), raw)
    if v["t"] == "bool":
        return common.BoolParameter(bool(v["n"]), raw)
    if v["t"] == "flt":
        return common.FloatParameter(_flt(v), raw)
    if v["t"] == "str":
        return common.StrParameter(v["s"], raw)
    raise ValueError(v)


def packet_of(env):
    from space_packet_parser import packets
    p = packets.CCSDSPacket()
    for e in env:
        p[e["name"]] = py_param(e["v"], e["r"])
    return p


def _b(x):
    return "true" if x else "false"


def esc(s):
    return s.replace("&", "&amp;").replace("<", "&lt;").replace(">", "&gt;").replace('"', "&quot;")


def xml_cmp(c, omit_defaults=False):
    a = f'parameterRef="{c["ref"]}" value="{esc(c["lit"]["txt"])}"'
    if not (omit_defaults and c["op"] == "=="):
        a += f' comparisonOperator="{esc(c["op"])}"'
    if not (omit_defaults and c["cal"]):
        a += f' useCalibratedValue="{_b(c["cal"])}"'
    return f"<Comparison {a}/>"


def xml_cond(c, omit_defaults=False):
    def ref(n, cal):
        if omit_defaults and cal:
            return f'<ParameterInstanceRef parameterRef="{n}"/>'
        return f'<ParameterInstanceRef parameterRef="{n}" useCalibratedValue="{_b(cal)}"/>'
    s = "<Condition>" + ref(c["l"], c["lcal"]) + f"<ComparisonOperator>{esc(c['op'])}</ComparisonOperator>"
    if c["rk"] == "param":
        s += ref(c["r"], c["rcal"])
    else:
        s += f"<Value>{esc(c['lit']['txt'])}</Value>"
    return s + "</Condition>"


def xml_bool_inner(e, od=False):
    if e["k"] == "cond":
        return xml_cond(e, od)
    tag = "ANDedConditions" if e["k"] == "and" else "ORedConditions"
    return f"<{tag}>" + "".join(xml_cond(c, od) for c in e["conds"]) + "".join(xml_bool_inner(g, od) for g in e["groups"]) + f"</{tag}>"


def xml_bool(e, od=False):
    return "<BooleanExpression>" + xml_bool_inner(e, od) + "</BooleanExpression>"


def obj_cmp(c, via="ctor", od=False):
    from lxml import etree
    from space_packet_parser.xtce import comparisons
    if via == "xml":
        return comparisons.Comparison.from_xml(etree.fromstring(xml_cmp(c, od)))
    return comparisons.Comparison(c["lit"]["txt"], c["ref"], operator=c["op"], use_calibrated_value=c["cal"])


def obj_cond(c, via="ctor", od=False):
    from lxml import etree
    from space_packet_parser.xtce import comparisons
    if via == "xml":
        return comparisons.Condition.from_xml(etree.fromstring(xml_cond(c, od)))
    if c["rk"] == "param":
        return comparisons.Condition(c["l"], c["op"], right_param=c["r"], left_use_calibrated_value=c["lcal"],
                                     right_use_calibrated_value=c["rcal"])
    return comparisons.Condition(c["l"], c["op"], right_value=c["lit"]["txt"], left_use_calibrated_value=c["lcal"],
                                 right_use_calibrated_value=False)


def obj_bool(e, via="ctor", od=False):
    from lxml import etree
    from space_packet_parser.xtce import comparisons
    if via == "xml":
        return comparisons.BooleanExpression.from_xml(etree.fromstring(xml_bool(e, od)))

    def rec(x):
        if x["k"] == "cond":
            return obj_cond(x)
        conds = [obj_cond(c) for c in x["conds"]]
        groups = [rec(g) for g in x["groups"]]
        return comparisons.Anded(conds, groups) if x["k"] == "and" else comparisons.Ored(conds, groups)
    return comparisons.BooleanExpression(rec(e))


def xml_ok(expr):
    """Can this expression be spelled in XML (operator spellings that survive unescaping)?"""
    if expr["k"] in ("cmp", "cond"):
        return expr["op"] in XML_OK
    if expr["k"] in ("and", "or"):
        return all(xml_ok(c) for c in expr["conds"]) and all(xml_ok(g) for g in expr["groups"])
    if expr["k"] == "list":
        return all(xml_ok(c) for c in expr["items"])
    if expr["k"] == "lookup":
        return all(xml_ok(c) for en in expr["entries"] for c in en["items"])
    return True


def build_eval(kind, expr, via="ctor", od=False):
    from space_packet_parser.xtce import comparisons
    if kind == "cmp":
        return obj_cmp(expr, via, od)
    if kind == "cond":
        return obj_cond(expr, via, od)
    if kind == "bool":
        return obj_bool(expr, via, od)
    if kind == "list":
        return [obj_cmp(c, via, od) for c in expr["items"]]
    if kind == "lookup":
        return [comparisons.DiscreteLookup([obj_cmp(c, via, od) for c in en["items"]], en["val"]) for en in expr["entries"]]
    raise ValueError(kind)


def observe(kind, expr, env, cur, via="ctor", od=False, shared=None):
    """Evaluate with the real classes. Returns (obs, obsn).  shared: dict keeping ONE evaluator object per (expression, route)."""
    pkt = packet_of(env)
    curv = py_plain(cur) if cur["t"] != "none" else None
    with warnings.catch_warnings():
        warnings.simplefilter("ignore")
        try:
            if shared is not None:
                key = (kind, json.dumps(expr, sort_keys=True), via, od)
                ev = shared.get(key)
                if ev is None:
                    ev = shared[key] = build_eval(kind, expr, via, od)
            else:
                ev = build_eval(kind, expr, via, od)
            if kind in ("cmp", "cond", "bool"):
                r = ev.evaluate(pkt, curv)
            elif kind == "list":
                r = all(c.evaluate(pkt, curv) for c in ev)
                if r is not True and r is not False:
                    r = bool(r)
            elif kind == "lookup":
                for dl in ev:
                    v = dl.evaluate(pkt, curv)
                    if v is not None:
                        return "V", int(v)
                return "N", 0
        except Exception:  # noqa: BLE001 - an escaping exception is an observation
            return "X", 0
    if r is True:
        return "T", 0
    if r is False:
        return "F", 0
    return "?" + type(r).__name__, 0
