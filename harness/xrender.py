"""Render abstract parameter types / encodings / calibrators / criteria (DESIGN appendix A.2) to XTCE XML text,
and build the same things through the library's public constructors.  The XML is written without namespace;
`harness.xdoc` wraps whole documents and applies a namespace convention."""
from fractions import Fraction

from harness import crit

ORD = {"msb": "mostSignificantByteFirst", "lsb": "leastSignificantByteFirst"}


def fr(r):
    return Fraction(r["num"], r["den"]) + r.get("shift", 0)      # shift: real-side translation of a coordinate (see calib.shifted_enum)


def fnum(r):
    """decimal text of a dyadic rational (exact)"""
    f = fr(r)
    if f.denominator == 1:
        return str(f.numerator)
    return repr(float(f))


def xml_cal(cal, od=False):
    if cal["k"] == "poly":
        return "<PolynomialCalibrator>" + "".join(
            f'<Term exponent="{t["e"]}" coefficient="{fnum(t["c"])}"/>' for t in cal["terms"]) + "</PolynomialCalibrator>"
    a = ""
    if not (od and cal["order"] == 0):
        a += f' order="{cal["order"]}"'
    if not (od and not cal["extrap"]):
        # xs:boolean spells false as "false" or "0": first-order splines use the digit
        a += f' extrapolate="{"true" if cal["extrap"] else ("0" if cal["order"] == 1 else "false")}"'
    return f"<SplineCalibrator{a}>" + "".join(
        f'<SplinePoint raw="{fnum(p["x"])}" calibrated="{fnum(p["y"])}"/>' for p in cal["pts"]) + "</SplineCalibrator>"


def xml_crit_list(crits, od=False):
    """criteria list as it appears inside ContextMatch / RestrictionCriteria"""
    if len(crits) == 1 and crits[0]["k"] != "cmp":
        return crit.xml_bool(crits[0], od)
    if len(crits) == 1:
        return crit.xml_cmp(crits[0], od)
    return "<ComparisonList>" + "".join(crit.xml_cmp(c, od) for c in crits) + "</ComparisonList>"


def xml_calset(cs, od=False):
    s = ""
    if cs["default"]["k"] != "none":
        s += "<DefaultCalibrator>" + xml_cal(cs["default"], od) + "</DefaultCalibrator>"
    if cs["context"]:
        s += "<ContextCalibratorList>" + "".join(
            "<ContextCalibrator><ContextMatch>" + xml_crit_list(c["crit"], od) + "</ContextMatch><Calibrator>"
            + xml_cal(c["cal"], od) + "</Calibrator></ContextCalibrator>" for c in cs["context"]) + "</ContextCalibratorList>"
    return s


def xml_numeric_encoding(enc, calset=None, od=False, skip_default=False):
    inner = ""
    if calset is not None:
        cs = dict(calset, default={"k": "none"}) if skip_default else calset
        inner = xml_calset(cs, od)
    if enc["k"] == "int":
        a = f'sizeInBits="{enc["w"]}"'
        if not (od and enc["enc"] == "unsigned"):
            a += f' encoding="{enc["enc"]}"'
        if not (od and enc.get("order", "msb") == "msb"):
            a += f' byteOrder="{ORD[enc.get("order", "msb")]}"'
        return f"<IntegerDataEncoding {a}>{inner}</IntegerDataEncoding>"
    a = f'sizeInBits="{enc["w"]}"'
    fmt = {"ieee": "IEEE754", "mil1750a": "MILSTD_1750A"}[enc.get("fmt", "ieee")]
    if enc.get("spelling") == "legacy":          # the tolerated older spellings of the same two formats
        fmt = {"IEEE754": "IEEE-754", "MILSTD_1750A": "MIL-1750A"}[fmt]
    if not (od and fmt == "IEEE754"):
        a += f' encoding="{fmt}"'
    if not (od and enc.get("order", "msb") == "msb"):
        a += f' byteOrder="{ORD[enc.get("order", "msb")]}"'
    return f"<FloatDataEncoding {a}>{inner}</FloatDataEncoding>"


TAGS = {"int": "IntegerParameterType", "float": "FloatParameterType", "enum": "EnumeratedParameterType",
        "bool": "BooleanParameterType", "abstime": "AbsoluteTimeParameterType", "reltime": "RelativeTimeParameterType",
        "bin": "BinaryParameterType", "str": "StringParameterType"}


def enum_raw_text(tv):
    if tv["t"] == "int":
        return str(tv["n"] + tv.get("shift", 0))
    if tv["t"] == "flt":
        return fnum(tv)
    return tv["s"]


def xml_type(name, pt, od=False):
    """Numeric-encoded parameter types (int, float, enum, bool, time). String/binary: harness.strbin."""
    tag = TAGS[pt["kind"]]
    unit = pt.get("unit", "")
    if pt["kind"] in ("abstime", "reltime"):
        # the Encoding element's scale/offset denote the default polynomial offset + scale*raw
        a = ""
        if unit:
            a += f' units="{unit}"'
        d = pt["cal"]["default"]
        # scale / offset express offset + scale * raw only (one term of exponent 1, at most one of exponent 0); any other default
        # calibrator (another polynomial, a spline) is the DefaultCalibrator of the data encoding inside <Encoding>
        linear = d["k"] == "poly" and sorted(t["e"] for t in d["terms"]) in ([1], [0, 1])
        if linear:
            for t in d["terms"]:
                if t["e"] == 1 and not (pt.get("scale_implicit") and fr(t["c"]) == 1):
                    a += f' scale="{fnum(t["c"])}"'
                if t["e"] == 0:
                    a += f' offset="{fnum(t["c"])}"'
        s = f'<{tag} name="{name}"><Encoding{a}>' + xml_numeric_encoding(pt["enc"], pt["cal"], od, skip_default=linear) + "</Encoding>"
        if pt.get("epoch") or pt.get("offsetFrom"):
            s += "<ReferenceTime>"
            if pt.get("offsetFrom"):
                s += f'<OffsetFrom parameterRef="{pt["offsetFrom"]}"/>'
            if pt.get("epoch"):
                s += f'<Epoch>{pt["epoch"]}</Epoch>'
            s += "</ReferenceTime>"
        return s + f"</{tag}>"
    s = f'<{tag} name="{name}">'
    if unit:
        s += f"<UnitSet><Unit>{unit}</Unit></UnitSet>"
    elif not od:
        s += "<UnitSet/>"          # real documents carry an empty UnitSet on every type without a unit (omitted with the other defaults)
    s += xml_numeric_encoding(pt["enc"], pt["cal"], od)
    if pt["kind"] == "enum":
        s += "<EnumerationList>" + "".join(
            f'<Enumeration label="{e["label"]}" value="{enum_raw_text(e["raw"])}"/>' for e in pt["enum"]) + "</EnumerationList>"
    return s + f"</{tag}>"


# ------------------------------------------------------------------ constructors
def obj_cal(cal):
    from space_packet_parser.xtce import calibrators
    if cal["k"] == "poly":
        return calibrators.PolynomialCalibrator([calibrators.PolynomialCoefficient(float(fr(t["c"])), t["e"]) for t in cal["terms"]])
    return calibrators.SplineCalibrator([calibrators.SplinePoint(float(fr(p["x"])), float(fr(p["y"]))) for p in cal["pts"]],
                                        order=cal["order"], extrapolate=cal["extrap"])


def obj_crit(c):
    return crit.obj_cmp(c) if c["k"] == "cmp" else crit.obj_bool(c)


def obj_numeric_encoding(enc, calset):
    from space_packet_parser.xtce import calibrators, encodings
    default = obj_cal(calset["default"]) if calset["default"]["k"] != "none" else None
    ctx = [calibrators.ContextCalibrator([obj_crit(c) for c in cc["crit"]], obj_cal(cc["cal"])) for cc in calset["context"]] or None
    if enc["k"] == "int":
        return encodings.IntegerDataEncoding(enc["w"], enc["enc"], byte_order=ORD[enc.get("order", "msb")],
                                             default_calibrator=default, context_calibrators=ctx)
    fmt = {"ieee": "IEEE754", "mil1750a": "MILSTD_1750A"}[enc.get("fmt", "ieee")]
    if enc.get("spelling") == "legacy":
        fmt = {"IEEE754": "IEEE-754", "MILSTD_1750A": "MIL-1750A"}[fmt]
    return encodings.FloatDataEncoding(enc["w"], encoding=fmt, byte_order=ORD[enc.get("order", "msb")],
                                       default_calibrator=default, context_calibrators=ctx)


def obj_type(name, pt):
    from space_packet_parser.xtce import parameter_types as T
    enc = obj_numeric_encoding(pt["enc"], pt["cal"])
    unit = pt.get("unit") or None
    k = pt["kind"]
    if k == "int":
        return T.IntegerParameterType(name, enc, unit)
    if k == "float":
        return T.FloatParameterType(name, enc, unit)
    if k == "enum":
        return T.EnumeratedParameterType(name, enc, {crit.py_plain(e["raw"]): e["label"] for e in pt["enum"]}, unit)
    if k == "bool":
        return T.BooleanParameterType(name, enc, unit)
    cls = T.AbsoluteTimeParameterType if k == "abstime" else T.RelativeTimeParameterType
    return cls(name, enc, unit=unit, epoch=pt.get("epoch") or None, offset_from=pt.get("offsetFrom") or None)


def type_from_xml(name, pt, od=False):
    from lxml import etree
    from space_packet_parser.xtce import parameter_types as T
    cls = getattr(T, TAGS[pt["kind"]])
    return cls.from_xml(etree.fromstring(xml_type(name, pt, od)))
