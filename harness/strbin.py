"""C07 helper: string / binary parameter types from abstract encodings (constructors and XML), observation."""
import json
import warnings

from harness import crit

CODEC = {"US-ASCII": 1, "ISO-8859-1": 1, "Windows-1252": 1, "UTF-8": 1, "UTF-16LE": 2, "UTF-16BE": 2, "UTF-32LE": 4, "UTF-32BE": 4}


def _b(x):
    return "true" if x else "false"


def xml_lookup_list(entries, od):
    s = "<DiscreteLookupList>"
    for en in entries:
        inner = crit.xml_cmp(en["items"][0], od) if len(en["items"]) == 1 else \
            "<ComparisonList>" + "".join(crit.xml_cmp(c, od) for c in en["items"]) + "</ComparisonList>"
        s += f'<DiscreteLookup value="{en["val"]}">{inner}</DiscreteLookup>'
    return s + "</DiscreteLookupList>"


def xml_dyn(ls, od):
    a = f'parameterRef="{ls["ref"]}"'
    if not (od and ls["cal"]):
        a += f' useCalibratedValue="{_b(ls["cal"])}"'
    s = f"<DynamicValue><ParameterInstanceRef {a}/>"
    if ls["adj"]:
        b = ""
        if not (od and ls["slope"] == 0):
            b += f' slope="{ls["slope"]}"'
        if not (od and ls["icpt"] == 0):
            b += f' intercept="{ls["icpt"]}"'
        s += f"<LinearAdjustment{b}/>"
    return s + "</DynamicValue>"


def xml_type(name, enc, od=False):
    ls = enc["len"]
    if enc["k"] == "bin":
        inner = {"fixed": lambda: f"<FixedValue>{ls['n']}</FixedValue>", "dyn": lambda: xml_dyn(ls, od),
                 "lookup": lambda: xml_lookup_list(ls["entries"], od)}[ls["k"]]()
        return f'<BinaryParameterType name="{name}"><BinaryDataEncoding><SizeInBits>{inner}</SizeInBits></BinaryDataEncoding></BinaryParameterType>'
    d = enc["delim"]
    extra = ""
    if d["k"] == "term":
        extra = "<TerminationChar>" + bytes(d["tc"]).hex() + "</TerminationChar>"
    elif d["k"] == "lead":
        extra = f'<LeadingSize sizeInBitsOfSizeTag="{d["tag"]}"/>'
    if ls["k"] == "fixed":
        size = f"<SizeInBits><Fixed><FixedValue>{ls['n']}</FixedValue></Fixed>{extra}</SizeInBits>"
    elif ls["k"] == "dyn":
        size = f'<Variable maximumSizeInBits="65536">{xml_dyn(ls, od)}{extra}</Variable>'
    else:
        size = f'<Variable maximumSizeInBits="65536">{xml_lookup_list(ls["entries"], od)}{extra}</Variable>'
    a = "" if (od and enc["codec"] == "UTF-8") else f' encoding="{enc["codec"]}"'
    return f'<StringParameterType name="{name}"><StringDataEncoding{a}>{size}</StringDataEncoding></StringParameterType>'


def obj_type(name, enc):
    from space_packet_parser.xtce import comparisons, encodings, parameter_types
    ls = enc["len"]
    kw = {}
    lk = None
    if ls["k"] == "lookup":
        lk = [comparisons.DiscreteLookup([crit.obj_cmp(c) for c in en["items"]], en["val"]) for en in ls["entries"]]
    adj = None
    if ls["k"] == "dyn" and ls["adj"]:
        slope, icpt = ls["slope"], ls["icpt"]

        def adj(x, slope=slope, icpt=icpt):
            y = slope * float(x) + icpt
            if not float(y).is_integer():
                raise ValueError("non-integral adjusted length")
            return int(y)
    if enc["k"] == "bin":
        if ls["k"] == "fixed":
            e = encodings.BinaryDataEncoding(fixed_size_in_bits=ls["n"])
        elif ls["k"] == "dyn":
            e = encodings.BinaryDataEncoding(size_reference_parameter=ls["ref"], use_calibrated_value=ls["cal"], linear_adjuster=adj)
        else:
            e = encodings.BinaryDataEncoding(size_discrete_lookup_list=lk)
        return parameter_types.BinaryParameterType(name, e)
    d = enc["delim"]
    if d["k"] == "term":
        kw["termination_character"] = bytes(d["tc"]).hex()
    elif d["k"] == "lead":
        kw["leading_length_size"] = d["tag"]
    if ls["k"] == "fixed":
        kw["fixed_raw_length"] = ls["n"]
    elif ls["k"] == "dyn":
        kw.update(dynamic_length_reference=ls["ref"], use_calibrated_value=ls["cal"], length_linear_adjuster=adj)
    else:
        kw["discrete_lookup_length"] = lk
    return parameter_types.StringParameterType(name, encodings.StringDataEncoding(encoding=enc["codec"], **kw))


def type_from_xml(name, enc, od=False):
    from lxml import etree
    from space_packet_parser.xtce import parameter_types
    cls = parameter_types.BinaryParameterType if enc["k"] == "bin" else parameter_types.StringParameterType
    return cls.from_xml(etree.fromstring(xml_type(name, enc, od)))


def observe(enc, env, pkt, pos, via="ctor", od=False, shared=None):
    """shared: a dict in which the type object built for (enc, via, od) is kept, so that ONE object decodes every case of that
    layout, as a loaded definition does for every packet of a stream."""
    from space_packet_parser import packets
    none = {"k": "", "text": [], "raw": [], "adv": 0}
    with warnings.catch_warnings():
        warnings.simplefilter("ignore")
        try:
            if shared is not None:
                key = (json.dumps(enc, sort_keys=True), via, od)
                t = shared.get(key)
                if t is None:
                    t = shared[key] = obj_type("T", enc) if via == "ctor" else type_from_xml("T", enc, od)
            else:
                t = obj_type("T", enc) if via == "ctor" else type_from_xml("T", enc, od)
        except Exception as e:  # noqa: BLE001
            return dict(none, k="build-error", note=f"{type(e).__name__}: {e}"[:120])
        p = crit.packet_of(env)
        p.raw_data = packets.RawPacketData(bytes(pkt))
        p.raw_data.pos = pos
        try:
            v = t.parse_value(p)
        except UnicodeDecodeError:
            return dict(none, k="decode-error")
        except Exception as e:  # noqa: BLE001
            return dict(none, k="err", note=f"{type(e).__name__}: {e}"[:120])
    adv = p.raw_data.pos - pos
    if enc["k"] == "bin":
        if type(v).__name__ != "BinaryParameter" or v.raw_value != v:
            return dict(none, k="wrong-class")
        return {"k": "val", "text": [], "raw": list(bytes(v)), "adv": adv}
    if type(v).__name__ != "StrParameter" or not isinstance(v.raw_value, bytes):
        return dict(none, k="wrong-class")
    try:
        tb = str(v).encode({"US-ASCII": "ascii", "ISO-8859-1": "latin-1", "Windows-1252": "cp1252"}.get(enc["codec"], enc["codec"]))
    except UnicodeEncodeError:
        return dict(none, k="reencode-error")
    return {"k": "val", "text": list(tb), "raw": list(v.raw_value), "adv": adv}
